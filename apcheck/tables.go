package main

// E2 (part 2): codec table extraction — who writes/reads which struct field under which wire name.

import (
	"fmt"
	"go/token"
	"go/types"
	"sort"
	"strings"

	"golang.org/x/tools/go/ssa"
)

// ---------- JSON prop writers ----------

type pwInfo struct {
	nameParam int
	suffixes  []string // what may be appended to the name before it is written ("" always included)
}

// nameSource classifies how a name argument is obtained inside f.
// kind: 0 const, 1 derived from parameter #k of f (with suffixes), 2 unknown
func nameSource(v ssa.Value, seen map[ssa.Value]bool) (kind int, k int, consts []string, suffixes []string) {
	if _, isPhi := v.(*ssa.Phi); isPhi {
		if seen[v] {
			return 1, -1, nil, nil
		}
		seen[v] = true
	}
	switch x := v.(type) {
	case *ssa.Const:
		if s, ok := constString(x); ok {
			return 0, 0, []string{s}, nil
		}
	case *ssa.Parameter:
		for i, p := range x.Parent().Params {
			if p == x {
				return 1, i, nil, []string{""}
			}
		}
	case *ssa.BinOp:
		if x.Op == token.ADD {
			if s, ok := constString(x.Y); ok {
				kind, k, cs, sf := nameSource(x.X, seen)
				switch kind {
				case 0:
					for i := range cs {
						cs[i] += s
					}
					return 0, 0, cs, nil
				case 1:
					var out []string
					for _, e := range sf {
						out = append(out, e+s)
					}
					return 1, k, nil, out
				}
			}
		}
	case *ssa.Phi:
		kind0, k0 := -1, -1
		var cs, sf []string
		for _, e := range x.Edges {
			kind, k, c, s := nameSource(e, seen)
			if kind == 2 {
				return 2, 0, nil, nil
			}
			if kind == 1 && k == -1 {
				continue // cycle
			}
			if kind0 == -1 {
				kind0, k0 = kind, k
			} else if kind0 != kind || (kind == 1 && k0 != k) {
				return 2, 0, nil, nil
			}
			cs = append(cs, c...)
			sf = append(sf, s...)
		}
		if kind0 == -1 {
			return 2, 0, nil, nil
		}
		return kind0, k0, uniq(cs), uniq(sf)
	case *ssa.Convert:
		return nameSource(x.X, seen)
	case *ssa.ChangeType:
		return nameSource(x.X, seen)
	}
	return 2, 0, nil, nil
}

func uniq(xs []string) []string {
	m := map[string]bool{}
	var out []string
	for _, x := range xs {
		if !m[x] {
			m[x] = true
			out = append(out, x)
		}
	}
	sort.Strings(out)
	return out
}

// discoverPropWriters starts from the anchor JSONWritePropName and closes over functions that forward one of
// their own string parameters to the name parameter of a prop writer.
func discoverPropWriters(w *World) (map[*ssa.Function]*pwInfo, error) {
	root := w.Func("JSONWritePropName")
	if root == nil {
		return nil, fmt.Errorf("anchor JSONWritePropName not found")
	}
	nameIdx := -1
	for i, p := range root.Params {
		if isStringish(p.Type()) {
			nameIdx = i
		}
	}
	if nameIdx < 0 {
		return nil, fmt.Errorf("JSONWritePropName has no string parameter")
	}
	pw := map[*ssa.Function]*pwInfo{root: {nameParam: nameIdx, suffixes: []string{""}}}
	for changed := true; changed; {
		changed = false
		for _, f := range w.Funcs {
			if pw[f] != nil {
				continue
			}
			for _, b := range f.Blocks {
				for _, in := range b.Instrs {
					call, ok := in.(ssa.CallInstruction)
					if !ok {
						continue
					}
					g := call.Common().StaticCallee()
					gi := pw[g]
					if gi == nil || gi.nameParam >= len(call.Common().Args) {
						continue
					}
					kind, k, _, sf := nameSource(call.Common().Args[gi.nameParam], map[ssa.Value]bool{})
					if kind == 1 && k >= 0 {
						var all []string
						for _, a := range sf {
							for _, b := range gi.suffixes {
								all = append(all, a+b)
							}
						}
						pw[f] = &pwInfo{nameParam: k, suffixes: uniq(all)}
						changed = true
					}
				}
			}
		}
	}
	return pw, nil
}

// ---------- sites ----------

type siteKind int

const (
	siteJSONWrite siteKind = iota
	siteJSONRead
	siteGobWrite
	siteGobRead
)

type site struct {
	kind   siteKind
	fn     *ssa.Function
	instr  ssa.Instruction
	names  []string    // wire names this site can emit / keys it reads (first-level)
	paths  [][]keyElem // read sites: full key paths
	field  FieldPath   // the struct field written to the wire / stored from the wire
	guards []guard
	writer *ssa.Function // the prop writer / encode helper called
	valArg ssa.Value
	note   string
	// condWrites: prop-writer calls whose result decides whether this site runs (short-circuit on the
	// accumulated "something was written" flag)
	condWrites []string
}

type keyElem struct {
	c      string
	param  int    // >=0: parameter index of the enclosing function; -1: constant c
	suffix string // appended to the parameter's value (prop + "Map")
}

func (k keyElem) String() string {
	if k.param >= 0 {
		return fmt.Sprintf("<param %d>%s", k.param, k.suffix)
	}
	return k.c
}

func pathString(p []keyElem) string {
	var s []string
	for _, e := range p {
		s = append(s, e.String())
	}
	return strings.Join(s, "/")
}

type tables struct {
	w    *World
	pr   *prover
	pw   map[*ssa.Function]*pwInfo
	jsW  map[*ssa.Function][]*site
	jsR  map[*ssa.Function][]*site
	gobW map[*ssa.Function][]*site
	// functions/closures that store into the property map under a key parameter
	gobHelpers map[*ssa.Function][]gobHelper
	gobR       map[*ssa.Function][]*site
	// problems found while extracting (unresolvable names, …), reported by the rules that care
	nameProblems []*site
	getter       map[*ssa.Function]*getterSummary
}

func buildTables(w *World) (*tables, error) {
	pw, err := discoverPropWriters(w)
	if err != nil {
		return nil, err
	}
	t := &tables{w: w, pr: newProver(w), pw: pw, jsW: map[*ssa.Function][]*site{}, jsR: map[*ssa.Function][]*site{},
		gobW: map[*ssa.Function][]*site{}, gobR: map[*ssa.Function][]*site{}, gobHelpers: map[*ssa.Function][]gobHelper{}}
	t.buildGetterSummaries()
	for _, f := range w.Funcs {
		t.extractJSONWrites(f)
		t.extractGobWrites(f)
		t.extractReads(f)
	}
	for _, f := range w.Funcs {
		t.extractGobHelperCalls(f)
	}
	return t, nil
}

type gobHelper struct {
	mu       *ssa.MapUpdate
	keyParam int
}

// paramIndexOf: v is (a conversion of) a parameter of f: its index, else -1.
func paramIndexOf(f *ssa.Function, v ssa.Value) int {
	v = unwrap(v)
	for i, p := range f.Params {
		if ssa.Value(p) == v {
			return i
		}
	}
	return -1
}

// producerOf: the package function whose result v is (through extracts, phis of one call, conversions).
func producerOf(v ssa.Value) *ssa.Function {
	for i := 0; i < 6; i++ {
		switch x := v.(type) {
		case *ssa.Extract:
			v = x.Tuple
		case *ssa.Call:
			return x.Common().StaticCallee()
		case *ssa.Convert:
			v = x.X
		case *ssa.ChangeType:
			v = x.X
		default:
			return nil
		}
	}
	return nil
}

// literalTableRows: key is field kf of an element of a local slice literal of structs (the loop variable of a range
// over it): returns, per row of the literal, the values stored into its fields.
func literalTableRows(key ssa.Value) (rows []map[int]ssa.Value, kf int, ok bool) {
	rows, kf, _, ok = literalTableRowsOf(key)
	return rows, kf, ok
}

type rowSetterArg struct {
	arg   ssa.Value
	table *ssa.Alloc
	row   int
}

// rowSetterArgs: p is a parameter of a closure kept in a row of a literal table and called through the ranged row
// (row.set(v)); returns what each such call hands over for p, with the table and the closure's row.
func rowSetterArgs(p *ssa.Parameter) []rowSetterArg {
	fn := p.Parent()
	if fn == nil || fn.Parent() == nil {
		return nil
	}
	pi := -1
	for i, q := range fn.Params {
		if q == p {
			pi = i
		}
	}
	var out []rowSetterArg
	for _, call := range callsIn(fn.Parent()) {
		cc := call.Common()
		if cc.IsInvoke() || cc.StaticCallee() != nil || pi < 0 || pi >= len(cc.Args) {
			continue
		}
		rows, sf, table, ok := literalTableRowsOf(cc.Value)
		if !ok {
			continue
		}
		for j, row := range rows {
			if mc, isMC := unwrap(row[sf]).(*ssa.MakeClosure); isMC && mc.Fn == ssa.Value(fn) {
				out = append(out, rowSetterArg{arg: cc.Args[pi], table: table, row: j})
			}
		}
	}
	return out
}

// literalTableRowsOf: as literalTableRows, and the table's array cell (its identity).
func literalTableRowsOf(key ssa.Value) (rows []map[int]ssa.Value, kf int, table *ssa.Alloc, ok bool) {
	fld, isField := key.(*ssa.Field)
	var elemAddr ssa.Value
	if isField {
		ld, isLd := fld.X.(*ssa.UnOp)
		if !isLd || ld.Op != token.MUL {
			return nil, 0, nil, false
		}
		elemAddr = ld.X
		kf = fld.Field
	} else if ld, isLd := key.(*ssa.UnOp); isLd && ld.Op == token.MUL {
		fa, isFA := ld.X.(*ssa.FieldAddr)
		if !isFA {
			return nil, 0, nil, false
		}
		elemAddr = fa.X
		kf = fa.Field
	} else {
		return nil, 0, nil, false
	}
	// the loop variable is a local that receives the whole element: prop := *(&table[i])
	var arr ssa.Value
	var arrayCopy *ssa.UnOp
	if al, isAl := elemAddr.(*ssa.Alloc); isAl {
		if sts := storesTo(al); len(sts) == 1 {
			if ld, isLd := sts[0].Val.(*ssa.UnOp); isLd && ld.Op == token.MUL {
				elemAddr = ld.X
			} else if ix, isIx := sts[0].Val.(*ssa.Index); isIx {
				// range over an array VALUE: t = *table; elem = t[i]
				if cp, isCp := ix.X.(*ssa.UnOp); isCp && cp.Op == token.MUL {
					if src, isSrc := cp.X.(*ssa.Alloc); isSrc {
						arr, arrayCopy = src, cp
					}
				}
			}
		}
	}
	ia, isIA := elemAddr.(*ssa.IndexAddr)
	if !isIA && arr == nil {
		return nil, 0, nil, false
	}
	if arr == nil {
		switch x := ia.X.(type) {
		case *ssa.Slice:
			arr = x.X
		case *ssa.Alloc:
			arr = x
		default:
			return nil, 0, nil, false
		}
	}
	al, isAlloc := arr.(*ssa.Alloc)
	if !isAlloc {
		return nil, 0, nil, false
	}
	at, isArr := types.Unalias(al.Type().(*types.Pointer).Elem()).Underlying().(*types.Array)
	if !isArr {
		return nil, 0, nil, false
	}
	byRow := map[int64]map[int]ssa.Value{}
	for _, r := range *al.Referrers() {
		switch x := r.(type) {
		case *ssa.IndexAddr:
			c, isConst := x.Index.(*ssa.Const)
			if !isConst || c.Value == nil {
				if x == ia {
					continue
				}
				return nil, 0, nil, false
			}
			j := c.Int64()
			for _, r2 := range *x.Referrers() {
				switch y := r2.(type) {
				case *ssa.FieldAddr:
					for _, r3 := range *y.Referrers() {
						if st, isSt := r3.(*ssa.Store); isSt && st.Addr == ssa.Value(y) {
							if byRow[j] == nil {
								byRow[j] = map[int]ssa.Value{}
							}
							byRow[j][y.Field] = st.Val
						}
					}
				case *ssa.Store:
					// whole-struct store of a composite literal built in a local: *(&table[j]) = *complit
					ld, isLd := y.Val.(*ssa.UnOp)
					if y.Addr != ssa.Value(x) || !isLd || ld.Op != token.MUL {
						return nil, 0, nil, false
					}
					cl, isAl := ld.X.(*ssa.Alloc)
					if !isAl {
						return nil, 0, nil, false
					}
					for _, r3 := range *cl.Referrers() {
						fa, isFA := r3.(*ssa.FieldAddr)
						if !isFA {
							continue
						}
						for _, r4 := range *fa.Referrers() {
							if st, isSt := r4.(*ssa.Store); isSt && st.Addr == ssa.Value(fa) {
								if byRow[j] == nil {
									byRow[j] = map[int]ssa.Value{}
								}
								byRow[j][fa.Field] = st.Val
							}
						}
					}
				}
			}
		case *ssa.Slice:
			// the slice the loop ranges over
		case *ssa.UnOp:
			if x != arrayCopy {
				return nil, 0, nil, false
			}
		default:
			return nil, 0, nil, false
		}
	}
	if int64(len(byRow)) != at.Len() || len(byRow) == 0 {
		return nil, 0, nil, false
	}
	for j := int64(0); j < at.Len(); j++ {
		row, okr := byRow[j]
		if !okr || row[kf] == nil {
			return nil, 0, nil, false
		}
		rows = append(rows, row)
	}
	return rows, kf, al, true
}

// extractGobHelperCalls: one gob write site per call of a helper that stores under a key parameter.
func (t *tables) extractGobHelperCalls(f *ssa.Function) {
	for _, b := range f.Blocks {
		for _, in := range b.Instrs {
			call, ok := in.(ssa.CallInstruction)
			if !ok {
				continue
			}
			g := call.Common().StaticCallee()
			hs := t.gobHelpers[g]
			if g == nil || len(hs) == 0 {
				continue
			}
			args := call.Common().Args
			for _, h := range hs {
				s := &site{kind: siteGobWrite, fn: f, instr: in, valArg: h.mu.Value}
				if h.keyParam >= len(args) {
					continue
				}
				k, isConst := constString(args[h.keyParam])
				if !isConst {
					if kp := paramIndexOf(f, args[h.keyParam]); kp >= 0 {
						// a helper of a helper: one more level
						t.gobHelpers[f] = append(t.gobHelpers[f], gobHelper{mu: h.mu, keyParam: kp})
						continue
					}
					s.note = "map key is not a compile-time constant"
					t.nameProblems = append(t.nameProblems, s)
					continue
				}
				s.names = []string{k}
				s.writer = producerOf(h.mu.Value)
				s.guards = t.pr.dominatingGuards(b)
				prov := newProv()
				for i, a := range args {
					if i == h.keyParam || isGobMap(a.Type()) {
						continue
					}
					if _, isC := a.(*ssa.Const); isC {
						continue
					}
					prov.merge(t.pr.prov(a))
				}
				refs := prov.list()
				if len(refs) == 0 {
					s.note = "value written does not derive from a struct field"
					t.gobW[f] = append(t.gobW[f], s)
					continue
				}
				for _, r := range refs {
					cp := *s
					cp.field = r
					t.gobW[f] = append(t.gobW[f], &cp)
				}
			}
		}
	}
}

func (t *tables) extractJSONWrites(f *ssa.Function) {
	if t.pw[f] != nil {
		// inside a prop writer the name is a parameter: not a site
	}
	for _, b := range f.Blocks {
		for _, in := range b.Instrs {
			call, ok := in.(ssa.CallInstruction)
			if !ok {
				continue
			}
			g := call.Common().StaticCallee()
			gi := t.pw[g]
			if gi == nil || gi.nameParam >= len(call.Common().Args) {
				continue
			}
			args := call.Common().Args
			kind, _, consts, _ := nameSource(args[gi.nameParam], map[ssa.Value]bool{})
			if kind == 1 {
				continue // forwarding inside a prop writer
			}
			var prov = newProv()
			var valArg ssa.Value
			for i, a := range args {
				if i == gi.nameParam || isByteBufPtr(a.Type()) {
					continue
				}
				if _, isConst := a.(*ssa.Const); isConst {
					continue
				}
				prov.merge(t.pr.prov(a))
				if valArg == nil {
					valArg = a
				}
			}
			s := &site{kind: siteJSONWrite, fn: f, instr: in, writer: g, valArg: valArg}
			if kind != 0 {
				// for _, r := range [...]struct{name string; col T}{{"to", o.To}, …} { write(b, r.name, r.col) }: one write per
				// row, with that row's constant name and that row's value
				if rows, nf, table, isRow := literalTableRowsOf(unwrap(args[gi.nameParam])); isRow && len(rows) > 0 {
					allConst := true
					for _, row := range rows {
						if _, isC := constString(row[nf]); !isC {
							allConst = false
						}
					}
					if allConst {
						for j, row := range rows {
							name, _ := constString(row[nf])
							rs := &site{kind: siteJSONWrite, fn: f, instr: in, writer: g, valArg: valArg}
							for _, sf := range gi.suffixes {
								rs.names = append(rs.names, name+sf)
							}
							rs.names = uniq(rs.names)
							rowVal := func(v ssa.Value) ssa.Value {
								if r3, f3, t3, ok3 := literalTableRowsOf(unwrap(v)); ok3 && t3 == table && j < len(r3) {
									return r3[j][f3]
								}
								return nil
							}
							rs.guards = substGuards(t.pr, t.pr.dominatingGuards(b), func(v ssa.Value) []FieldPath {
								if rv := rowVal(v); rv != nil {
									return t.pr.prov(rv).list()
								}
								return nil
							})
							rprov := newProv()
							for i, a := range args {
								if i == gi.nameParam || isByteBufPtr(a.Type()) {
									continue
								}
								if _, isConst := a.(*ssa.Const); isConst {
									continue
								}
								if rv := rowVal(a); rv != nil {
									rprov.merge(t.pr.prov(rv))
								} else {
									rprov.merge(t.pr.prov(a))
								}
							}
							refs := rprov.list()
							if len(refs) == 0 {
								rs.note = "value written does not derive from a struct field"
								t.jsW[f] = append(t.jsW[f], rs)
								continue
							}
							for _, r := range refs {
								cp := *rs
								cp.field = r
								t.jsW[f] = append(t.jsW[f], &cp)
							}
						}
						continue
					}
				}
				s.note = "name is not a compile-time constant"
				t.nameProblems = append(t.nameProblems, s)
				continue
			}
			for _, c := range consts {
				for _, sf := range gi.suffixes {
					s.names = append(s.names, c+sf)
				}
			}
			s.names = uniq(s.names)
			s.guards = t.pr.dominatingGuards(b)
			for _, g := range rawGuards(b) {
				for _, wc := range t.writesInSlice(g.cond, in) {
					s.condWrites = append(s.condWrites, wc)
				}
			}
			refs := prov.list()
			if len(refs) == 0 {
				s.note = "value written does not derive from a struct field"
				t.jsW[f] = append(t.jsW[f], s)
				continue
			}
			for _, r := range refs {
				cp := *s
				cp.field = r
				t.jsW[f] = append(t.jsW[f], &cp)
			}
		}
	}
}

// writesInSlice: prop-writer calls (other than self) in the backward slice of a branch condition.
func (t *tables) writesInSlice(cond ssa.Value, self ssa.Instruction) []string {
	var out []string
	seen := map[ssa.Value]bool{}
	var visit func(v ssa.Value, d int)
	visit = func(v ssa.Value, d int) {
		if v == nil || seen[v] || d > 30 {
			return
		}
		seen[v] = true
		switch x := v.(type) {
		case *ssa.Call:
			if g := x.Common().StaticCallee(); g != nil && t.pw[g] != nil && ssa.Instruction(x) != self {
				name := "?"
				if gi := t.pw[g]; gi.nameParam < len(x.Common().Args) {
					if s, ok := constString(x.Common().Args[gi.nameParam]); ok {
						name = s
					}
				}
				out = append(out, name)
			}
		case *ssa.Phi:
			for _, e := range x.Edges {
				visit(e, d+1)
			}
			// control dependence: the branches that select which edge is taken (x || y lowers to a branch on x)
			blk := x.Block()
			for _, p := range blk.Preds {
				if ifi, ok := p.Instrs[len(p.Instrs)-1].(*ssa.If); ok {
					visit(ifi.Cond, d+1)
				}
			}
			if id := blk.Idom(); id != nil {
				if ifi, ok := id.Instrs[len(id.Instrs)-1].(*ssa.If); ok {
					visit(ifi.Cond, d+1)
				}
			}
		case *ssa.BinOp:
			visit(x.X, d+1)
			visit(x.Y, d+1)
		case *ssa.UnOp:
			if x.Op == token.MUL {
				switch a := x.X.(type) {
				case *ssa.Alloc:
					for _, st := range storesTo(a) {
						visit(st.Val, d+1)
					}
					return
				case *ssa.FreeVar:
					if b, ok := t.pr.fvMap[a]; ok {
						if al, ok := b.(*ssa.Alloc); ok {
							for _, st := range storesTo(al) {
								visit(st.Val, d+1)
							}
							// stores made inside closures through the captured variable
							for fv, bind := range t.pr.fvMap {
								if bind == b {
									if refs := fv.Referrers(); refs != nil {
										for _, r := range *refs {
											if st, ok := r.(*ssa.Store); ok && st.Addr == ssa.Value(fv) {
												visit(st.Val, d+1)
											}
										}
									}
								}
							}
						}
					}
					return
				}
			}
			visit(x.X, d+1)
		}
	}
	visit(cond, 0)
	return uniq(out)
}

func isGobMap(tp types.Type) bool {
	m, ok := types.Unalias(tp).Underlying().(*types.Map)
	if !ok {
		return false
	}
	if !isStringish(m.Key()) {
		return false
	}
	s, ok := types.Unalias(m.Elem()).Underlying().(*types.Slice)
	if !ok {
		return false
	}
	b, ok := types.Unalias(s.Elem()).Underlying().(*types.Basic)
	return ok && b.Kind() == types.Byte
}

func (t *tables) extractGobWrites(f *ssa.Function) {
	for _, b := range f.Blocks {
		for _, in := range b.Instrs {
			mu, ok := in.(*ssa.MapUpdate)
			if !ok || !isGobMap(mu.Map.Type()) {
				continue
			}
			s := &site{kind: siteGobWrite, fn: f, instr: in, valArg: mu.Value}
			if k, ok := constString(mu.Key); ok {
				s.names = []string{k}
			} else if kp := paramIndexOf(f, mu.Key); kp >= 0 {
				// a helper (function or local closure) that stores under a key it is given: the sites are its calls
				t.gobHelpers[f] = append(t.gobHelpers[f], gobHelper{mu: mu, keyParam: kp})
				continue
			} else if rows, kf, ok := literalTableRows(mu.Key); ok {
				// for _, p := range []struct{key string; val Item}{{"a", x.A}, …} { mm[p.key] = enc(p.val) }: one site per row
				var writer *ssa.Function
				if c, ok := mu.Value.(*ssa.Extract); ok {
					if call, ok := c.Tuple.(*ssa.Call); ok {
						writer = call.Common().StaticCallee()
					}
				} else if call, ok := mu.Value.(*ssa.Call); ok {
					writer = call.Common().StaticCallee()
				}
				if writer == nil {
					// raw, err := enc(p.val); mm[p.key] = raw
					writer = producerOf(mu.Value)
				}
				bad := false
				for _, row := range rows {
					k, ok := constString(row[kf])
					if !ok {
						bad = true
						break
					}
					rs := &site{kind: siteGobWrite, fn: f, instr: in, valArg: mu.Value, names: []string{k}, writer: writer}
					rs.guards = t.pr.dominatingGuards(b)
					prov := newProv()
					for fi, v := range row {
						if fi != kf {
							prov.merge(t.pr.prov(v))
						}
					}
					refs := prov.list()
					if len(refs) == 0 {
						rs.note = "value written does not derive from a struct field"
						t.gobW[f] = append(t.gobW[f], rs)
						continue
					}
					for _, r := range refs {
						cp := *rs
						cp.field = r
						t.gobW[f] = append(t.gobW[f], &cp)
					}
				}
				if !bad {
					continue
				}
				s.note = "map key is not a compile-time constant"
				t.nameProblems = append(t.nameProblems, s)
				continue
			} else {
				s.note = "map key is not a compile-time constant"
				t.nameProblems = append(t.nameProblems, s)
				continue
			}
			if c, ok := mu.Value.(*ssa.Extract); ok {
				if call, ok := c.Tuple.(*ssa.Call); ok {
					s.writer = call.Common().StaticCallee()
				}
			}
			s.guards = t.pr.dominatingGuards(b)
			refs := t.pr.prov(mu.Value).list()
			if len(refs) == 0 {
				s.note = "value written does not derive from a struct field"
				t.gobW[f] = append(t.gobW[f], s)
				continue
			}
			for _, r := range refs {
				cp := *s
				cp.field = r
				t.gobW[f] = append(t.gobW[f], &cp)
			}
		}
	}
}

// ---------- read side ----------

type getterSummary struct {
	valParam int
	paths    [][]keyElem // lookups relative to the value parameter (truncated to 2 elements)
}

func isFastjsonValuePtr(tp types.Type) bool {
	p, ok := types.Unalias(tp).(*types.Pointer)
	if !ok {
		return false
	}
	n, ok := types.Unalias(p.Elem()).(*types.Named)
	return ok && n.Obj().Name() == "Value" && n.Obj().Pkg() != nil && strings.HasSuffix(n.Obj().Pkg().Path(), "fastjson")
}

func isFastjsonMethod(fn *ssa.Function) bool {
	if fn == nil || fn.Signature.Recv() == nil {
		return false
	}
	return isFastjsonValuePtr(fn.Signature.Recv().Type()) || func() bool {
		n := namedOf(fn.Signature.Recv().Type())
		return n != nil && n.Obj().Pkg() != nil && strings.HasSuffix(n.Obj().Pkg().Path(), "fastjson")
	}()
}

// variadicElems recovers the elements of a variadic string argument (a slice of a fresh array).
func variadicElems(v ssa.Value) ([]ssa.Value, bool) {
	if c, ok := v.(*ssa.Const); ok && c.Value == nil {
		return nil, true // nil slice: no keys
	}
	// lists = append(lists, more...): the elements of both, in order
	if call, ok := v.(*ssa.Call); ok {
		if bi, isBuiltin := call.Common().Value.(*ssa.Builtin); isBuiltin && bi.Name() == "append" && len(call.Common().Args) == 2 {
			a, okA := variadicElems(call.Common().Args[0])
			b, okB := variadicElems(call.Common().Args[1])
			if okA && okB {
				return append(append([]ssa.Value{}, a...), b...), true
			}
		}
		return nil, false
	}
	sl, ok := v.(*ssa.Slice)
	if !ok {
		return nil, false
	}
	al, ok := sl.X.(*ssa.Alloc)
	if !ok {
		return nil, false
	}
	arr, ok := derefType(al.Type()).Underlying().(*types.Array)
	if !ok {
		return nil, false
	}
	elems := make([]ssa.Value, arr.Len())
	if refs := al.Referrers(); refs != nil {
		for _, r := range *refs {
			ia, ok := r.(*ssa.IndexAddr)
			if !ok {
				continue
			}
			idx, ok := ia.Index.(*ssa.Const)
			if !ok {
				return nil, false
			}
			i := int(idx.Int64())
			if ia.Referrers() != nil {
				for _, rr := range *ia.Referrers() {
					if st, ok := rr.(*ssa.Store); ok && st.Addr == ia && i < len(elems) {
						elems[i] = st.Val
					}
				}
			}
		}
	}
	for _, e := range elems {
		if e == nil {
			return nil, false
		}
	}
	return elems, true
}

// rowCtx: while the value handled for one row of a literal table is followed (a setter closure's argument, a store
// through the row's pointer field), table -> row+1: keys read from the ranged row are that row's constants.
var rowCtx = map[*ssa.Alloc]int{}

// keyFacts: while the value of one store site is followed, what the dominating branches say about key variables
// (switch key { case "inbox": a.Inbox = box }: at that store key == "inbox").
var keyFacts = map[ssa.Value]string{}

func keyOf(v ssa.Value) keyElem {
	if s, ok := constString(v); ok {
		return keyElem{c: s, param: -1}
	}
	if k, ok := keyFacts[v]; ok {
		return keyElem{c: k, param: -1}
	}
	if len(rowCtx) > 0 {
		if rows, kf, table, isRow := literalTableRowsOf(v); isRow && rowCtx[table] > 0 {
			if s, ok := constString(rows[rowCtx[table]-1][kf]); ok {
				return keyElem{c: s, param: -1}
			}
		}
	}
	if bo, ok := v.(*ssa.BinOp); ok && bo.Op == token.ADD {
		if s, ok := constString(bo.Y); ok {
			base := keyOf(bo.X)
			switch {
			case base.param == -1:
				return keyElem{c: base.c + s, param: -1}
			case base.param >= 0:
				return keyElem{param: base.param, suffix: base.suffix + s}
			}
		}
	}
	if p, ok := v.(*ssa.Parameter); ok {
		for i, q := range p.Parent().Params {
			if q == p {
				return keyElem{param: i}
			}
		}
	}
	return keyElem{c: "<opaque>", param: -2}
}

// valuePaths gives the key paths (relative to the function's own value parameter) a *fastjson.Value-typed SSA
// value may stand for; ok=false when it does not derive from the parameter (or a freshly parsed document).
func (t *tables) valuePaths(v ssa.Value, depth int) ([][]keyElem, bool) {
	if depth > 10 {
		return nil, false
	}
	switch x := v.(type) {
	case *ssa.Parameter:
		if isFastjsonValuePtr(x.Type()) {
			// the parameter of a local closure that the enclosing function calls directly stands for the arguments of
			// those calls (appendLoaded := func(v *fastjson.Value) {…}; appendLoaded(val)), not for the document root
			if fn := x.Parent(); fn != nil && fn.Parent() != nil {
				idx := -1
				for i, p := range fn.Params {
					if p == x {
						idx = i
					}
				}
				var sites []*ssa.Call
				for _, b := range fn.Parent().Blocks {
					for _, in := range b.Instrs {
						call, ok := in.(*ssa.Call)
						if !ok {
							continue
						}
						if mc, ok := call.Common().Value.(*ssa.MakeClosure); ok && mc.Fn == fn {
							sites = append(sites, call)
						}
					}
				}
				if len(sites) > 0 && idx >= 0 {
					var out [][]keyElem
					got := false
					for _, cs := range sites {
						if idx < len(cs.Common().Args) {
							if ps, ok := t.valuePaths(cs.Common().Args[idx], depth+1); ok {
								got = true
								out = append(out, ps...)
							}
						}
					}
					return out, got
				}
			}
			return [][]keyElem{nil}, true
		}
		return nil, false
	case *ssa.FreeVar:
		if b, ok := t.pr.fvMap[x]; ok {
			return t.valuePaths(b, depth+1)
		}
	case *ssa.Phi:
		var out [][]keyElem
		have := map[string]bool{}
		got := false
		for _, e := range x.Edges {
			if e == x {
				continue
			}
			ps, ok := t.valuePaths(e, depth+1)
			if !ok {
				continue
			}
			got = true
			for _, p := range ps {
				if k := pathString(p); !have[k] {
					have[k] = true
					out = append(out, p)
				}
			}
		}
		// "val = val.Get(prop)" under a nil check joins the parameter itself with the nested value: the nested
		// lookups are the interesting ones, keep the longest paths only when lengths differ
		if got {
			maxLen := 0
			for _, p := range out {
				if len(p) > maxLen {
					maxLen = len(p)
				}
			}
			var keep [][]keyElem
			for _, p := range out {
				if len(p) == maxLen {
					keep = append(keep, p)
				}
			}
			return keep, true
		}
		return nil, false
	case *ssa.UnOp:
		if x.Op == token.MUL {
			var al *ssa.Alloc
			if a, ok := x.X.(*ssa.Alloc); ok {
				al = a
			} else if fv, ok := x.X.(*ssa.FreeVar); ok {
				if b, ok := t.pr.fvMap[fv]; ok {
					al, _ = b.(*ssa.Alloc)
				}
			}
			if al != nil {
				var out [][]keyElem
				got := false
				maxLen := 0
				for _, s := range storesTo(al) {
					ps, ok := t.valuePaths(s.Val, depth+1)
					if ok {
						got = true
						for _, p := range ps {
							out = append(out, p)
							if len(p) > maxLen {
								maxLen = len(p)
							}
						}
					}
				}
				var keep [][]keyElem
				for _, p := range out {
					if len(p) == maxLen {
						keep = append(keep, p)
					}
				}
				return keep, got
			}
		}
	case *ssa.Extract:
		// val, err := parser.ParseBytes(data): a freshly parsed document is a root
		if call, ok := x.Tuple.(*ssa.Call); ok && isFastjsonValuePtr(x.Type()) {
			if cal := call.Common().StaticCallee(); cal != nil && isFastjsonMethod(cal) && !isFastjsonValuePtr(cal.Signature.Recv().Type()) {
				return [][]keyElem{nil}, true
			}
		}
	case *ssa.Call:
		cal := x.Common().StaticCallee()
		if isFastjsonMethod(cal) && isFastjsonValuePtr(x.Type()) && len(x.Common().Args) >= 1 {
			bases, ok := t.valuePaths(x.Common().Args[0], depth+1)
			if !ok {
				return nil, false
			}
			var keys []keyElem
			if len(x.Common().Args) >= 2 {
				if elems, ok := variadicElems(x.Common().Args[len(x.Common().Args)-1]); ok {
					for _, e := range elems {
						keys = append(keys, keyOf(e))
					}
				}
			}
			var out [][]keyElem
			for _, b := range bases {
				out = append(out, append(append([]keyElem(nil), b...), keys...))
			}
			return out, true
		}
	}
	return nil, false
}

// valuePath: single-path convenience (the first of valuePaths).
func (t *tables) valuePath(v ssa.Value, depth int) ([]keyElem, bool) {
	ps, ok := t.valuePaths(v, depth)
	if !ok || len(ps) == 0 {
		return nil, false
	}
	return ps[0], true
}

func trunc(p []keyElem, n int) []keyElem {
	if len(p) > n {
		return p[:n]
	}
	return p
}

// lookupsOfCall: key paths (relative to the enclosing function's value parameter) a call looks up.
func (t *tables) lookupsOfCall(call *ssa.Call) [][]keyElem {
	cc := call.Common()
	cal := cc.StaticCallee()
	if cal == nil {
		return nil
	}
	if isFastjsonMethod(cal) && len(cc.Args) >= 1 && isFastjsonValuePtr(cc.Args[0].Type()) {
		bases, ok := t.valuePaths(cc.Args[0], 0)
		if !ok {
			return nil
		}
		var out [][]keyElem
		sig := cal.Signature
		var keys []keyElem
		if sig.Variadic() && len(cc.Args) >= 2 {
			if elems, ok := variadicElems(cc.Args[len(cc.Args)-1]); ok {
				for _, e := range elems {
					keys = append(keys, keyOf(e))
				}
			}
		}
		for _, base := range bases {
			p := append(append([]keyElem(nil), base...), keys...)
			if len(p) > 0 {
				out = append(out, trunc(p, 3))
			}
		}
		return out
	}
	gs := t.getter[cal]
	if gs == nil || gs.valParam >= len(cc.Args) {
		return nil
	}
	bases, ok := t.valuePaths(cc.Args[gs.valParam], 0)
	if !ok {
		return nil
	}
	var out [][]keyElem
	for _, base := range bases {
		for _, q := range gs.paths {
			p := append([]keyElem(nil), base...)
			for _, e := range q {
				if e.param >= 0 {
					if e.param < len(cc.Args) {
						k := keyOf(cc.Args[e.param])
						if k.param == -1 {
							k.c += e.suffix
						} else if k.param >= 0 {
							k.suffix += e.suffix
						}
						p = append(p, k)
					} else {
						p = append(p, keyElem{c: "<opaque>", param: -2})
					}
				} else {
					p = append(p, e)
				}
			}
			out = append(out, trunc(p, 3))
		}
	}
	return out
}

func (t *tables) buildGetterSummaries() {
	t.getter = map[*ssa.Function]*getterSummary{}
	var cands []*ssa.Function
	for _, f := range t.w.Funcs {
		if f.Parent() != nil {
			continue
		}
		for i, p := range f.Params {
			if isFastjsonValuePtr(p.Type()) {
				t.getter[f] = &getterSummary{valParam: i}
				cands = append(cands, f)
				break
			}
		}
	}
	for iter := 0; iter < 6; iter++ {
		changed := false
		for _, f := range cands {
			gs := t.getter[f]
			have := map[string]bool{}
			for _, p := range gs.paths {
				have[pathString(p)] = true
			}
			fns := append([]*ssa.Function{f}, allAnon(f)...)
			for _, g := range fns {
				for _, b := range g.Blocks {
					for _, in := range b.Instrs {
						call, ok := in.(*ssa.Call)
						if !ok {
							continue
						}
						for _, p := range t.lookupsOfCall(call) {
							p = trunc(p, 2)
							if len(p) == 0 {
								continue
							}
							if k := pathString(p); !have[k] {
								have[k] = true
								gs.paths = append(gs.paths, p)
								changed = true
							}
						}
					}
				}
			}
		}
		if !changed {
			break
		}
	}
}

func allAnon(f *ssa.Function) []*ssa.Function {
	var out []*ssa.Function
	for _, a := range f.AnonFuncs {
		out = append(out, a)
		out = append(out, allAnon(a)...)
	}
	return out
}

// keysOf: the wire keys (JSON key paths and gob map keys) in the backward slice of v.
func (t *tables) keysOf(v ssa.Value, seen map[ssa.Value]bool, depth int, out *[][]keyElem, gobKeys *[]string) {
	if v == nil || seen[v] || depth > 40 {
		return
	}
	seen[v] = true
	switch x := v.(type) {
	case *ssa.Call:
		for _, p := range t.lookupsOfCall(x) {
			*out = append(*out, p)
		}
		cc := x.Common()
		if cc.IsInvoke() {
			t.keysOf(cc.Value, seen, depth+1, out, gobKeys)
		}
		for _, a := range cc.Args {
			t.keysOf(a, seen, depth+1, out, gobKeys)
		}
	case *ssa.Lookup:
		if isGobMap(x.X.Type()) {
			if k, ok := constString(x.Index); ok {
				*gobKeys = append(*gobKeys, k)
			} else if k, ok := keyFacts[x.Index]; ok {
				*gobKeys = append(*gobKeys, k)
			} else if rows, kf, table, isRow := literalTableRowsOf(x.Index); isRow && rowCtx[table] > 0 {
				// mm[row.key] while following the value handed to the same row's setter: that row's key
				if k, ok := constString(rows[rowCtx[table]-1][kf]); ok {
					*gobKeys = append(*gobKeys, k)
				} else {
					*gobKeys = append(*gobKeys, "<opaque>")
				}
			} else {
				*gobKeys = append(*gobKeys, "<opaque>")
			}
		}
	case *ssa.Extract:
		t.keysOf(x.Tuple, seen, depth+1, out, gobKeys)
	case *ssa.Phi:
		for _, e := range x.Edges {
			t.keysOf(e, seen, depth+1, out, gobKeys)
		}
	case *ssa.Convert:
		t.keysOf(x.X, seen, depth+1, out, gobKeys)
	case *ssa.ChangeType:
		t.keysOf(x.X, seen, depth+1, out, gobKeys)
	case *ssa.ChangeInterface:
		t.keysOf(x.X, seen, depth+1, out, gobKeys)
	case *ssa.MakeInterface:
		t.keysOf(x.X, seen, depth+1, out, gobKeys)
	case *ssa.TypeAssert:
		t.keysOf(x.X, seen, depth+1, out, gobKeys)
	case *ssa.Slice:
		t.keysOf(x.X, seen, depth+1, out, gobKeys)
	case *ssa.BinOp:
		t.keysOf(x.X, seen, depth+1, out, gobKeys)
		t.keysOf(x.Y, seen, depth+1, out, gobKeys)
	case *ssa.UnOp:
		if x.Op == token.MUL {
			switch a := x.X.(type) {
			case *ssa.Alloc:
				for _, s := range storesTo(a) {
					t.keysOf(s.Val, seen, depth+1, out, gobKeys)
				}
				// the allocation may also be filled through its address (decode helpers, UnmarshalJSON on &local.field)
				t.keysThroughAddress(a, seen, depth, out, gobKeys)
				return
			case *ssa.FreeVar:
				if b, ok := t.pr.fvMap[a]; ok {
					if al, ok := b.(*ssa.Alloc); ok {
						for _, s := range storesTo(al) {
							t.keysOf(s.Val, seen, depth+1, out, gobKeys)
						}
						return
					}
					t.keysOf(b, seen, depth+1, out, gobKeys)
					return
				}
			}
		}
		t.keysOf(x.X, seen, depth+1, out, gobKeys)
	case *ssa.FreeVar:
		if b, ok := t.pr.fvMap[x]; ok {
			t.keysOf(b, seen, depth+1, out, gobKeys)
		}
	case *ssa.Field:
		t.keysOf(x.X, seen, depth+1, out, gobKeys)
	case *ssa.Alloc:
		for _, s := range storesTo(x) {
			t.keysOf(s.Val, seen, depth+1, out, gobKeys)
		}
		t.keysThroughAddress(x, seen, depth, out, gobKeys)
	case *ssa.Parameter:
		// the parameter of a setter closure kept in a row of a literal table ({key, func(v T) { x.F = v }}) and called
		// through the ranged row (row.set(dec(mm[row.key]))): what the call hands over, read with that row's key
		for _, ra := range rowSetterArgs(x) {
			rowCtx[ra.table] = ra.row + 1
			t.keysOf(ra.arg, seen, depth+1, out, gobKeys)
			delete(rowCtx, ra.table)
		}
	}
}

// keysThroughAddress: a local whose address (or the address of one of its fields) is handed to a call is
// filled from that call's other arguments.
func (t *tables) keysThroughAddress(a *ssa.Alloc, seen map[ssa.Value]bool, depth int, out *[][]keyElem, gobKeys *[]string) {
	refs := a.Referrers()
	if refs == nil {
		return
	}
	for _, r := range *refs {
		switch x := r.(type) {
		case *ssa.Call:
			for _, arg := range x.Common().Args {
				if arg != ssa.Value(a) {
					t.keysOf(arg, seen, depth+1, out, gobKeys)
				}
			}
			for _, p := range t.lookupsOfCall(x) {
				*out = append(*out, p)
			}
		case *ssa.FieldAddr:
			if fr := x.Referrers(); fr != nil {
				for _, rr := range *fr {
					switch y := rr.(type) {
					case *ssa.Store:
						if y.Addr == x {
							t.keysOf(y.Val, seen, depth+1, out, gobKeys)
						}
					case *ssa.Call:
						for _, arg := range y.Common().Args {
							if arg != ssa.Value(x) {
								t.keysOf(arg, seen, depth+1, out, gobKeys)
							}
						}
					}
				}
			}
		}
	}
}

func (t *tables) isTaggedStruct(n *types.Named) bool {
	if n == nil || n.Obj().Pkg() != t.w.Types {
		return false
	}
	st, ok := n.Underlying().(*types.Struct)
	if !ok {
		return false
	}
	for i := 0; i < st.NumFields(); i++ {
		if _, _, _, ok := parseTag(st.Tag(i)); ok {
			return true
		}
	}
	return false
}

// extractReads: stores into fields of tagged structs, and calls that are handed the address of such a field.
func (t *tables) extractReads(f *ssa.Function) {
	mk := func(in ssa.Instruction, fa *ssa.FieldAddr, vals []ssa.Value, b *ssa.BasicBlock, callee *ssa.Function) {
		fp, ok := t.pr.structPath(fa, 0)
		if !ok || len(fp.Idx) == 0 || !t.isTaggedStruct(fp.RootType) {
			// maybe a nested tagged struct (o.Source.Content): accept when the innermost struct is tagged
			if !ok || len(fp.Idx) == 0 {
				return
			}
		}
		var paths [][]keyElem
		var gobKeys []string
		seen := map[ssa.Value]bool{}
		// what the branches above the store say about key variables
		for _, g := range rawGuards(b) {
			if bo, isBin := g.cond.(*ssa.BinOp); isBin && bo.Op == token.EQL && g.onTrue {
				if k, isK := constString(bo.Y); isK {
					keyFacts[bo.X] = k
				} else if k, isK := constString(bo.X); isK {
					keyFacts[bo.Y] = k
				}
			}
		}
		for _, v := range vals {
			t.keysOf(v, seen, 0, &paths, &gobKeys)
		}
		for k := range keyFacts {
			delete(keyFacts, k)
		}
		if len(paths) > 0 {
			s := &site{kind: siteJSONRead, fn: f, instr: in, field: fp, paths: paths, writer: callee}
			s.guards = t.pr.dominatingGuards(b)
			t.jsR[f] = append(t.jsR[f], s)
		}
		if len(gobKeys) > 0 {
			s := &site{kind: siteGobRead, fn: f, instr: in, field: fp, names: uniq(gobKeys), writer: callee}
			s.guards = t.pr.dominatingGuards(b)
			t.gobR[f] = append(t.gobR[f], s)
		}
		if len(paths) == 0 && len(gobKeys) == 0 {
			// a store that does not come from the wire (constructors, copies): not a codec read site
		}
	}
	for _, b := range f.Blocks {
		for _, in := range b.Instrs {
			switch x := in.(type) {
			case *ssa.Store:
				if fa, ok := x.Addr.(*ssa.FieldAddr); ok {
					mk(in, fa, []ssa.Value{x.Val}, b, nil)
				} else if rows, df, table, isRow := literalTableRowsOf(x.Addr); isRow {
					// for _, m := range [...]struct{dst *T; prop string}{{&p.A, "a"}, …} { *m.dst = get(val, m.prop) }:
					// one read site per row, its key being that row's
					for j, row := range rows {
						if rfa, isFA := row[df].(*ssa.FieldAddr); isFA {
							rowCtx[table] = j + 1
							mk(in, rfa, []ssa.Value{x.Val}, b, nil)
							delete(rowCtx, table)
						}
					}
				}
			case *ssa.Call:
				cc := x.Common()
				var all []ssa.Value
				if cc.IsInvoke() {
					all = append(all, cc.Value)
				}
				all = append(all, cc.Args...)
				for i, a := range all {
					fa, ok := a.(*ssa.FieldAddr)
					if !ok {
						// a pointer-typed field handed (by value) to a decode method of its pointee: (*T).GobDecode(o.F, raw)
						if ld, isLoad := a.(*ssa.UnOp); isLoad && ld.Op == token.MUL && i == 0 {
							if fa2, isFA := ld.X.(*ssa.FieldAddr); isFA {
								if cal := cc.StaticCallee(); cal != nil && codecMethodNames[cal.Name()] && cal.Signature.Recv() != nil {
									if _, isPtr := types.Unalias(a.Type()).Underlying().(*types.Pointer); isPtr {
										fa, ok = fa2, true
									}
								}
							}
						}
					}
					if !ok {
						continue
					}
					var others []ssa.Value
					for j, o := range all {
						if j != i {
							others = append(others, o)
						}
					}
					mk(in, fa, others, b, cc.StaticCallee())
				}
			}
		}
	}
}

// ---------- closures and views ----------

var codecMethodNames = map[string]bool{
	"MarshalJSON": true, "UnmarshalJSON": true, "GobEncode": true, "GobDecode": true,
	"MarshalBinary": true, "UnmarshalBinary": true, "MarshalText": true, "UnmarshalText": true,
}

// producesItems: the function hands back a nested item (Item / ItemCollection / LinkOrIRI …): a different value.
func (t *tables) producesItems(f *ssa.Function) bool {
	res := f.Signature.Results()
	for i := 0; i < res.Len(); i++ {
		rt := res.At(i).Type()
		if t.w.itemLikeIface(rt) != nil {
			return true
		}
		if sl, ok := types.Unalias(rt).Underlying().(*types.Slice); ok && t.w.itemLikeIface(sl.Elem()) != nil {
			return true
		}
	}
	return false
}

// takesItems: the function is handed a nested item to encode.
func (t *tables) takesItems(f *ssa.Function) bool {
	ps := f.Signature.Params()
	for i := 0; i < ps.Len(); i++ {
		pt := ps.At(i).Type()
		if t.w.itemLikeIface(pt) != nil {
			return true
		}
		if sl, ok := types.Unalias(pt).Underlying().(*types.Slice); ok && t.w.itemLikeIface(sl.Elem()) != nil {
			return true
		}
	}
	return false
}

// codecClosure: functions reachable from root that still work on the root's own value.
// dir: "enc" cuts at functions that take nested items (other values), "dec" at functions that produce them.
func (t *tables) codecClosure(root *ssa.Function, owner *types.Named, dir string) []*ssa.Function {
	return t.w.Reach([]*ssa.Function{root}, func(f *ssa.Function) bool {
		if recv := f.Signature.Recv(); recv != nil && codecMethodNames[f.Name()] {
			if namedOf(recv.Type()) != owner {
				return true
			}
		}
		if f.Parent() != nil {
			return false
		}
		// On*/To* style helpers take an item and a callback / return a view: they stay on the same value
		if isViewHelper(f) {
			return false
		}
		if dir == "enc" && t.takesItems(f) && t.pw[f] == nil && f.Signature.Recv() == nil {
			return true
		}
		if dir == "enc" && t.pw[f] != nil {
			return true // prop writers emit the value handed to them; nothing of the root below
		}
		if dir == "dec" && t.producesItems(f) {
			return true
		}
		return false
	})
}

// isViewHelper: func(Item, func(*T) error) error  or  func(Item) (*T, error) — the On*/To* families.
func isViewHelper(f *ssa.Function) bool {
	sig := f.Signature
	if sig.Recv() != nil || sig.Params().Len() == 0 {
		return false
	}
	if _, isIface := types.Unalias(sig.Params().At(0).Type()).Underlying().(*types.Interface); !isIface {
		return false
	}
	if sig.Params().Len() == 2 {
		if _, isFn := types.Unalias(sig.Params().At(1).Type()).Underlying().(*types.Signature); isFn {
			return true
		}
	}
	if sig.Params().Len() == 1 && sig.Results().Len() == 2 {
		if p, ok := types.Unalias(sig.Results().At(0).Type()).(*types.Pointer); ok {
			if _, isStruct := types.Unalias(p.Elem()).Underlying().(*types.Struct); isStruct {
				return true
			}
		}
	}
	return false
}

// isPrefixView: src's fields are, position by position, the first fields of dst (same types).
func isPrefixView(view, full *types.Named) bool {
	if view == full {
		return true
	}
	vs, ok1 := view.Underlying().(*types.Struct)
	fs, ok2 := full.Underlying().(*types.Struct)
	if !ok1 || !ok2 || vs.NumFields() > fs.NumFields() {
		return false
	}
	for i := 0; i < vs.NumFields(); i++ {
		if !types.Identical(vs.Field(i).Type(), fs.Field(i).Type()) && !types.Identical(vs.Field(i).Type().Underlying(), fs.Field(i).Type().Underlying()) {
			return false
		}
	}
	return true
}

func (t *tables) sitesIn(fns []*ssa.Function, m map[*ssa.Function][]*site) []*site {
	var out []*site
	for _, f := range fns {
		out = append(out, m[f]...)
	}
	return out
}
