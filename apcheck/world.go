package main

import (
	"fmt"
	"go/ast"
	"go/constant"
	"go/token"
	"go/types"
	"os"
	"path/filepath"
	"runtime"
	"sort"
	"strings"

	"golang.org/x/tools/go/packages"
	"golang.org/x/tools/go/ssa"
	"golang.org/x/tools/go/ssa/ssautil"
)

// World is the type-checked, SSA-built view of the target package. It is rebuilt from source on every run.
type World struct {
	Dir    string
	Fset   *token.FileSet
	Pkg    *packages.Package
	Types  *types.Package
	Info   *types.Info
	Prog   *ssa.Program
	SSA    *ssa.Package
	Sizes  types.Sizes
	Arch   string          // GOARCH the program was loaded for ("" = host default)
	Funcs  []*ssa.Function // every source function of the package incl. methods, closures, generic instantiations
	byObj  map[*types.Func]*ssa.Function
	inPkg  map[*ssa.Function]bool
	NPkgs  int
	NFuncs int
}

const targetPkgPath = "github.com/go-ap/activitypub"

func loadWorld(dir string, goarch string) (*World, error) {
	env := append(os.Environ(), "GOFLAGS=-mod=mod", "GOPROXY=off", "GOSUMDB=off", "GOTOOLCHAIN=local", "GOWORK=off")
	if goarch != "" {
		env = append(env, "GOARCH="+goarch)
	}
	cfg := &packages.Config{
		Mode: packages.NeedName | packages.NeedFiles | packages.NeedCompiledGoFiles | packages.NeedImports |
			packages.NeedDeps | packages.NeedTypes | packages.NeedSyntax | packages.NeedTypesInfo |
			packages.NeedTypesSizes | packages.NeedModule,
		Dir:   dir,
		Env:   env,
		Tests: false,
	}
	pkgs, err := packages.Load(cfg, ".")
	if err != nil {
		return nil, fmt.Errorf("packages.Load: %w", err)
	}
	if len(pkgs) != 1 {
		return nil, fmt.Errorf("expected exactly one root package in %s, got %d", dir, len(pkgs))
	}
	root := pkgs[0]
	nerr := 0
	var firstErr string
	n := 0
	packages.Visit(pkgs, nil, func(p *packages.Package) {
		n++
		for _, e := range p.Errors {
			if nerr == 0 {
				firstErr = e.Error()
			}
			nerr++
		}
	})
	if nerr > 0 {
		return nil, fmt.Errorf("%d load/type errors, first: %s", nerr, firstErr)
	}
	if n == 0 || root.Types == nil || len(root.Syntax) == 0 {
		return nil, fmt.Errorf("no packages/syntax loaded from %s", dir)
	}
	prog, ssapkgs := ssautil.AllPackages(pkgs, ssa.InstantiateGenerics)
	prog.Build()
	w := &World{
		Dir: dir, Arch: goarch, Fset: root.Fset, Pkg: root, Types: root.Types, Info: root.TypesInfo,
		Prog: prog, SSA: ssapkgs[0], Sizes: root.TypesSizes, NPkgs: n,
		byObj: map[*types.Func]*ssa.Function{}, inPkg: map[*ssa.Function]bool{},
	}
	if w.SSA == nil {
		return nil, fmt.Errorf("no SSA package for %s", root.PkgPath)
	}
	w.collectFuncs()
	return w, nil
}

// ArchName is the GOARCH the program was loaded for.
func (w *World) ArchName() string {
	if w.Arch == "" {
		return runtime.GOARCH
	}
	return w.Arch
}

func (w *World) collectFuncs() {
	seen := map[*ssa.Function]bool{}
	var add func(f *ssa.Function)
	add = func(f *ssa.Function) {
		if f == nil || seen[f] {
			return
		}
		seen[f] = true
		if f.Blocks == nil {
			return
		}
		w.Funcs = append(w.Funcs, f)
		w.inPkg[f] = true
		for _, a := range f.AnonFuncs {
			add(a)
		}
	}
	// every declared function/method
	var objs []*types.Func
	for _, obj := range w.Info.Defs {
		if fn, ok := obj.(*types.Func); ok {
			objs = append(objs, fn)
		}
	}
	sort.Slice(objs, func(i, j int) bool { return objs[i].Pos() < objs[j].Pos() })
	for _, fn := range objs {
		f := w.Prog.FuncValue(fn)
		if f != nil {
			w.byObj[fn] = f
			add(f)
		}
	}
	// generic instantiations reachable from package functions
	for changed := true; changed; {
		changed = false
		for _, f := range append([]*ssa.Function(nil), w.Funcs...) {
			for _, b := range f.Blocks {
				for _, in := range b.Instrs {
					var ops [16]*ssa.Value
					for _, op := range in.Operands(ops[:0]) {
						if op == nil || *op == nil {
							continue
						}
						if g, ok := (*op).(*ssa.Function); ok && !seen[g] && g.Origin() != nil && w.inPkg[g.Origin()] {
							add(g)
							changed = true
						}
					}
				}
			}
		}
	}
	w.NFuncs = len(w.Funcs)
}

// InPkg reports whether f is a function (or closure, or instantiation) of the target package.
func (w *World) InPkg(f *ssa.Function) bool { return f != nil && w.inPkg[f] }

// Func returns the package-level function with the given name, or nil.
func (w *World) Func(name string) *ssa.Function {
	obj := w.Types.Scope().Lookup(name)
	if fn, ok := obj.(*types.Func); ok {
		return w.byObj[fn]
	}
	return nil
}

// Named returns the named type declared in the package scope (aliases resolved), or nil.
func (w *World) Named(name string) *types.Named {
	obj := w.Types.Scope().Lookup(name)
	tn, ok := obj.(*types.TypeName)
	if !ok {
		return nil
	}
	n, _ := types.Unalias(tn.Type()).(*types.Named)
	return n
}

// Method returns the declared method T.name (value or pointer receiver), or nil.
func (w *World) Method(typeName, name string) *ssa.Function {
	n := w.Named(typeName)
	if n == nil {
		return nil
	}
	for i := 0; i < n.NumMethods(); i++ {
		m := n.Method(i)
		if m.Name() == name {
			return w.byObj[m]
		}
	}
	return nil
}

// Global returns the SSA global for a package-level variable.
func (w *World) Global(name string) *ssa.Global {
	g, _ := w.SSA.Members[name].(*ssa.Global)
	return g
}

func (w *World) Pos(p token.Pos) string {
	if !p.IsValid() {
		return "-"
	}
	pos := w.Fset.Position(p)
	rel, err := filepath.Rel(w.Dir, pos.Filename)
	if err != nil || strings.HasPrefix(rel, "..") {
		rel = filepath.Base(pos.Filename)
	}
	return fmt.Sprintf("%s:%d", rel, pos.Line)
}

func (w *World) FuncPos(f *ssa.Function) string {
	if f == nil {
		return "-"
	}
	return w.Pos(f.Pos())
}

// InstrPos gives the best position for an instruction (falling back to enclosing function).
func (w *World) InstrPos(in ssa.Instruction) string {
	if in == nil {
		return "-"
	}
	if p := in.Pos(); p.IsValid() {
		return w.Pos(p)
	}
	if v, ok := in.(ssa.Value); ok {
		_ = v
	}
	return w.FuncPos(in.Parent())
}

// funcName gives a stable, line-free name for a function: T.m, f, f$1 (closures), f[T] (instances).
func funcName(f *ssa.Function) string {
	if f == nil {
		return "<nil>"
	}
	if f.Parent() != nil {
		// closure: parent name + index among parent's AnonFuncs
		idx := 0
		for i, a := range f.Parent().AnonFuncs {
			if a == f {
				idx = i + 1
			}
		}
		return fmt.Sprintf("%s$%d", funcName(f.Parent()), idx)
	}
	if recv := f.Signature.Recv(); recv != nil {
		t := recv.Type()
		if p, ok := t.(*types.Pointer); ok {
			t = p.Elem()
		}
		if n, ok := types.Unalias(t).(*types.Named); ok {
			return n.Obj().Name() + "." + f.Name()
		}
	}
	return f.Name()
}

// ---- struct model ----

type FieldInfo struct {
	Struct      *types.Named
	Index       int
	Name        string
	Type        types.Type
	Term        string // jsonld term ("" when untagged)
	OmitEmpty   bool
	Collapsible bool
}

type StructInfo struct {
	Named  *types.Named
	Name   string
	Struct *types.Struct
	Fields []*FieldInfo
	byName map[string]*FieldInfo
	byTerm map[string]*FieldInfo
}

func (s *StructInfo) Field(name string) *FieldInfo { return s.byName[name] }

func parseTag(tag string) (term string, omit, coll bool, ok bool) {
	v, found := lookupTag(tag, "jsonld")
	if !found {
		return "", false, false, false
	}
	parts := strings.Split(v, ",")
	term = parts[0]
	for _, p := range parts[1:] {
		switch p {
		case "omitempty":
			omit = true
		case "collapsible":
			coll = true
		}
	}
	return term, omit, coll, true
}

func lookupTag(tag, key string) (string, bool) {
	// minimal reflect.StructTag.Lookup
	for tag != "" {
		i := 0
		for i < len(tag) && tag[i] == ' ' {
			i++
		}
		tag = tag[i:]
		if tag == "" {
			break
		}
		i = 0
		for i < len(tag) && tag[i] > ' ' && tag[i] != ':' && tag[i] != '"' && tag[i] != 0x7f {
			i++
		}
		if i == 0 || i+1 >= len(tag) || tag[i] != ':' || tag[i+1] != '"' {
			break
		}
		name := tag[:i]
		tag = tag[i+1:]
		i = 1
		for i < len(tag) && tag[i] != '"' {
			if tag[i] == '\\' {
				i++
			}
			i++
		}
		if i >= len(tag) {
			break
		}
		qvalue := tag[:i+1]
		tag = tag[i+1:]
		if key == name {
			val := strings.Trim(qvalue, `"`)
			return val, true
		}
	}
	return "", false
}

// TaggedStructs returns every named struct type of the package that has at least one jsonld-tagged field,
// in declaration order.
func (w *World) TaggedStructs() []*StructInfo {
	var out []*StructInfo
	names := w.Types.Scope().Names()
	var tns []*types.TypeName
	for _, n := range names {
		if tn, ok := w.Types.Scope().Lookup(n).(*types.TypeName); ok && !tn.IsAlias() {
			tns = append(tns, tn)
		}
	}
	sort.Slice(tns, func(i, j int) bool { return tns[i].Pos() < tns[j].Pos() })
	for _, tn := range tns {
		named, ok := tn.Type().(*types.Named)
		if !ok {
			continue
		}
		st, ok := named.Underlying().(*types.Struct)
		if !ok {
			continue
		}
		si := w.structInfo(named, st)
		tagged := false
		for _, f := range si.Fields {
			if f.Term != "" {
				tagged = true
			}
		}
		if tagged {
			out = append(out, si)
		}
	}
	return out
}

func (w *World) structInfo(named *types.Named, st *types.Struct) *StructInfo {
	si := &StructInfo{Named: named, Name: named.Obj().Name(), Struct: st, byName: map[string]*FieldInfo{}, byTerm: map[string]*FieldInfo{}}
	for i := 0; i < st.NumFields(); i++ {
		f := st.Field(i)
		term, omit, coll, _ := parseTag(st.Tag(i))
		fi := &FieldInfo{Struct: named, Index: i, Name: f.Name(), Type: f.Type(), Term: term, OmitEmpty: omit, Collapsible: coll}
		si.Fields = append(si.Fields, fi)
		si.byName[fi.Name] = fi
		if term != "" {
			si.byTerm[term] = fi
		}
	}
	return si
}

func (w *World) StructInfoOf(name string) *StructInfo {
	n := w.Named(name)
	if n == nil {
		return nil
	}
	st, ok := n.Underlying().(*types.Struct)
	if !ok {
		return nil
	}
	return w.structInfo(n, st)
}

// ---- constants and constant lists ----

// ConstsOfType returns all package-level constants whose type is the named type tname: name -> string value.
func (w *World) ConstsOfType(tname string) map[string]string {
	out := map[string]string{}
	n := w.Named(tname)
	if n == nil {
		return out
	}
	for _, name := range w.Types.Scope().Names() {
		c, ok := w.Types.Scope().Lookup(name).(*types.Const)
		if !ok {
			continue
		}
		if types.Identical(types.Unalias(c.Type()), n) && c.Val().Kind() == constant.String {
			out[name] = constant.StringVal(c.Val())
		}
	}
	return out
}

// ListVar evaluates a package-level variable initialised with a composite literal whose elements are all
// constants. ok=false means the variable does not exist or is not of that shape (undecided).
func (w *World) ListVar(name string) (vals []string, pos token.Pos, ok bool) {
	obj, _ := w.Types.Scope().Lookup(name).(*types.Var)
	if obj == nil {
		return nil, token.NoPos, false
	}
	for _, f := range w.Pkg.Syntax {
		for _, d := range f.Decls {
			gd, isGen := d.(*ast.GenDecl)
			if !isGen || gd.Tok != token.VAR {
				continue
			}
			for _, sp := range gd.Specs {
				vs := sp.(*ast.ValueSpec)
				for i, id := range vs.Names {
					if w.Info.Defs[id] != obj {
						continue
					}
					if i >= len(vs.Values) {
						return nil, id.Pos(), false
					}
					cl, isLit := ast.Unparen(vs.Values[i]).(*ast.CompositeLit)
					if !isLit {
						return nil, id.Pos(), false
					}
					for _, e := range cl.Elts {
						tv, has := w.Info.Types[e]
						if !has || tv.Value == nil || tv.Value.Kind() != constant.String {
							return nil, id.Pos(), false
						}
						vals = append(vals, constant.StringVal(tv.Value))
					}
					return vals, id.Pos(), true
				}
			}
		}
	}
	return nil, obj.Pos(), false
}

// ---- small SSA helpers ----

func constString(v ssa.Value) (string, bool) {
	c, ok := v.(*ssa.Const)
	if !ok || c.Value == nil || c.Value.Kind() != constant.String {
		return "", false
	}
	return constant.StringVal(c.Value), true
}

// constSeparator: a constant string, or a constant byte/rune (strings.IndexByte(u, '#')), as a string.
func constSeparator(v ssa.Value) (string, bool) {
	if s, ok := constString(v); ok {
		return s, true
	}
	c, ok := v.(*ssa.Const)
	if !ok || c.Value == nil || c.Value.Kind() != constant.Int {
		return "", false
	}
	if b, ok := types.Unalias(c.Type()).Underlying().(*types.Basic); ok && (b.Kind() == types.Byte || b.Kind() == types.Int32 || b.Kind() == types.UntypedRune) {
		if n, ok := constant.Int64Val(c.Value); ok && n > 0 && n < 0x110000 {
			return string(rune(n)), true
		}
	}
	return "", false
}

func isNilConst(v ssa.Value) bool {
	c, ok := v.(*ssa.Const)
	return ok && c.Value == nil
}

// staticCallee returns the statically known callee of a call instruction (function or method), if any.
func staticCallee(c ssa.CallInstruction) *ssa.Function {
	return c.Common().StaticCallee()
}

func derefType(t types.Type) types.Type {
	if p, ok := types.Unalias(t).Underlying().(*types.Pointer); ok {
		return p.Elem()
	}
	return t
}

func namedOf(t types.Type) *types.Named {
	t = types.Unalias(t)
	if p, ok := t.(*types.Pointer); ok {
		t = types.Unalias(p.Elem())
	}
	n, _ := t.(*types.Named)
	return n
}

func typeName(t types.Type) string {
	return types.TypeString(t, func(p *types.Package) string {
		if p.Path() == targetPkgPath {
			return ""
		}
		return p.Name()
	})
}

func sortedKeys[M ~map[string]V, V any](m M) []string {
	ks := make([]string, 0, len(m))
	for k := range m {
		ks = append(ks, k)
	}
	sort.Strings(ks)
	return ks
}

func setOf(xs []string) map[string]bool {
	m := map[string]bool{}
	for _, x := range xs {
		m[x] = true
	}
	return m
}

func setEq(a, b map[string]bool) bool {
	if len(a) != len(b) {
		return false
	}
	for k := range a {
		if !b[k] {
			return false
		}
	}
	return true
}

func setDiff(a, b map[string]bool) []string {
	var out []string
	for k := range a {
		if !b[k] {
			out = append(out, k)
		}
	}
	sort.Strings(out)
	return out
}

// ---- package-local call graph ----

// callees returns the package functions f may transfer control to, resolved through the type-checked
// program: static callees, closures created in f (they are either called or passed on by f), function
// constants used as values, and — for interface invokes — every package method implementing the selector
// (class-hierarchy resolution restricted to the package's own types).
func (w *World) callees(f *ssa.Function) []*ssa.Function {
	var out []*ssa.Function
	seen := map[*ssa.Function]bool{}
	add := func(g *ssa.Function) {
		if g != nil && w.InPkg(g) && !seen[g] {
			seen[g] = true
			out = append(out, g)
		}
	}
	for _, b := range f.Blocks {
		for _, in := range b.Instrs {
			if ci, ok := in.(ssa.CallInstruction); ok {
				cc := ci.Common()
				if cc.IsInvoke() {
					for _, g := range w.implementers(cc.Method) {
						add(g)
					}
				} else if g := cc.StaticCallee(); g != nil {
					add(g)
				}
			}
			var ops [16]*ssa.Value
			for _, op := range in.Operands(ops[:0]) {
				if op == nil || *op == nil {
					continue
				}
				switch v := (*op).(type) {
				case *ssa.Function:
					add(v)
				case *ssa.MakeClosure:
					add(v.Fn.(*ssa.Function))
				}
			}
			if mc, ok := in.(*ssa.MakeClosure); ok {
				add(mc.Fn.(*ssa.Function))
			}
		}
	}
	return out
}

var implCache = map[string][]*ssa.Function{}

// implementers returns the package's concrete methods that can be the target of an interface invoke of m.
func (w *World) implementers(m *types.Func) []*ssa.Function {
	key := m.FullName() + "|" + m.Type().String()
	if r, ok := implCache[key]; ok {
		return r
	}
	var out []*ssa.Function
	recvT := m.Type().(*types.Signature).Recv().Type()
	iface, _ := recvT.Underlying().(*types.Interface)
	for _, name := range w.Types.Scope().Names() {
		tn, ok := w.Types.Scope().Lookup(name).(*types.TypeName)
		if !ok || tn.IsAlias() {
			continue
		}
		for _, t := range []types.Type{tn.Type(), types.NewPointer(tn.Type())} {
			if _, isIface := t.Underlying().(*types.Interface); isIface {
				continue
			}
			if iface != nil && !types.Implements(t, iface) {
				continue
			}
			sel := w.Prog.MethodSets.MethodSet(t).Lookup(m.Pkg(), m.Name())
			if sel == nil {
				continue
			}
			if fn, ok := sel.Obj().(*types.Func); ok {
				if g := w.byObj[fn]; g != nil {
					out = append(out, g)
				}
			}
		}
	}
	implCache[key] = out
	return out
}

// Reach returns the package functions reachable from roots (roots included) in the package-local call graph.
// cut(f) == true stops the traversal at f (f is not included and not descended into).
func (w *World) Reach(roots []*ssa.Function, cut func(*ssa.Function) bool) []*ssa.Function {
	seen := map[*ssa.Function]bool{}
	var order []*ssa.Function
	var visit func(f *ssa.Function, isRoot bool)
	visit = func(f *ssa.Function, isRoot bool) {
		if f == nil || seen[f] || !w.InPkg(f) {
			return
		}
		if !isRoot && cut != nil && cut(f) {
			return
		}
		seen[f] = true
		order = append(order, f)
		for _, g := range w.callees(f) {
			visit(g, false)
		}
	}
	for _, r := range roots {
		visit(r, true)
	}
	return order
}

// globalsRead returns the package-level variables (of any package) loaded or address-taken in fns.
func globalsTouched(fns []*ssa.Function) map[*ssa.Global]bool {
	out := map[*ssa.Global]bool{}
	for _, f := range fns {
		for _, b := range f.Blocks {
			for _, in := range b.Instrs {
				var ops [16]*ssa.Value
				for _, op := range in.Operands(ops[:0]) {
					if op != nil && *op != nil {
						if g, ok := (*op).(*ssa.Global); ok {
							out[g] = true
						}
					}
				}
			}
		}
	}
	return out
}
