#!/bin/bash
# Builds bin/apcheck from /verif/apcheck (offline; x/tools v0.29.0 comes from the module cache).
set -eu
HERE="$(cd "$(dirname "${BASH_SOURCE[0]}")" && pwd)"
export GOFLAGS=-mod=mod GOPROXY=off GOSUMDB=off GOTOOLCHAIN=local GOWORK=off
mkdir -p "$HERE/bin"
need=0
[ -x "$HERE/bin/apcheck" ] || need=1
# a deleted or renamed source must trigger a rebuild too: compare the list of sources with the one recorded at build time
cur="$(cd "$HERE/apcheck" && ls *.go go.mod | sort | tr '\n' ' ')"
[ "$(cat "$HERE/bin/.sources" 2>/dev/null || true)" = "$cur" ] || need=1
if [ $need = 0 ]; then
  for f in "$HERE"/apcheck/*.go "$HERE"/apcheck/go.mod; do
    [ "$f" -nt "$HERE/bin/apcheck" ] && need=1 && break
  done
fi
if [ $need = 1 ]; then
  (cd "$HERE/apcheck" && go build -o "$HERE/bin/apcheck" .)
  echo "$cur" > "$HERE/bin/.sources"
fi
