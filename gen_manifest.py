#!/usr/bin/env python3
"""Regenerates /verif/MANIFEST.json from the table below and from what bin/apcheck implements (-list).
Run after adding a property check:  python3 gen_manifest.py
"""
import json, subprocess, os, sys

HERE = os.path.dirname(os.path.abspath(__file__))

# id -> (level category, level text, level note, technique, design ref)
CLAIMS = {
 "C08": ("proof",
   "Exhaustive static obligation per site: every unsafe.Pointer reinterpretation in the package (48 on the pinned tree, found on the SSA form by type, not by text) must be narrowing (sizeof view <= sizeof source) and a field-by-field layout prefix (offset, type, jsonld term, name; Items/OrderedItems is the one allowed renaming) on all 14 gc architectures; any other use of package unsafe fails. This is the property's own static formulation ('a static obligation per site'), so the check decides the property for all sites and layouts; it is reported as level 'other' in evidence while a known widening finding leaves an obligation undischarged.",
   "Trusted: go/types layout model types.SizesFor(gc, arch) agreeing with the compiler; go/ssa builder; the reflect.ConvertibleTo fallback converts only between identical underlying struct types (not re-verified).",
   "layout-prefix check over all unsafe.Pointer conversion sites (go/ssa + go/types.Sizes)", "3/C08"),
 "C15": ("other",
   "Decides the table-agreement clauses: the eight collection names of the statement are CollectionPath constants; the table Split consults and the union of the two validity tables contain all eight; Split/ValidCollectionIRI route through those tables (who-reads / who-calls on the SSA call graph); by abstract interpretation with the path fixed to each name, ofActor/ofObject/AddTo touch exactly the struct field whose jsonld term equals the name. A necessary condition of the join/split and owner laws for each name; the inverse law on arbitrary owner IRI strings is NOT decided.",
   "Trusted: go/types constant evaluation, go/ssa, the abstract interpreter. Declined: string-level inverse law (trailing slashes, percent-escapes, path/filepath host dependence); survival of an explicitly set actor collection through Of().",
   "constant-table agreement + abstract interpretation (SCCP) of the name->field switches", "3/C15"),
}

NOT_YET = "check not yet built in this round (planned, see DESIGN.md section 3); not claimed until it runs clean"

def main():
    try:
        impl = subprocess.run([os.path.join(HERE, "bin", "apcheck"), "-list"], capture_output=True, text=True, check=True).stdout.split()
    except Exception as e:
        print("cannot query bin/apcheck -list:", e, file=sys.stderr)
        impl = []
    props = [json.loads(l) for l in open(os.path.join(HERE, "properties.jsonl")) if l.strip()]
    checks, na = [], []
    for p in props:
        pid = p["id"]
        if pid in CLAIMS and pid in impl:
            cat, text, note, tech, ref = CLAIMS[pid]
            checks.append({
                "property_id": pid,
                "quick_cmd": f"./run.sh {pid} quick",
                "thorough_cmd": f"./run.sh {pid} thorough",
                "evidence_file": f"/verif/evidence/{pid}.json",
                "replay_cmd_template": f"./run.sh {pid} quick  # replay file {{path}} names the obligation key to look for",
                "engine": "apcheck",
                "level_claimed": {"category": cat, "text": text, "design_ref": "DESIGN.md " + ref},
                "level_note": note,
                "technique": tech,
            })
        else:
            reason = NA_REASONS.get(pid, NOT_YET)
            na.append({"property_id": pid, "reason": reason})
    m = {
        "version": 1,
        "setup_cmd": "./build.sh",
        "hooks": {
            "guard": "verif",
            "enable": "none needed: the checks are static and read /repo's source; no instrumentation is compiled into go-ap/activitypub",
            "baseline_off_cmd": "cd /repo && GOFLAGS=-mod=mod GOPROXY=off GOSUMDB=off go test -vet=off -count=1 ./...",
            "source_commits": [],
            "add_only": True,
        },
        "engines": [{
            "name": "apcheck",
            "path": "/verif/apcheck",
            "serves_properties": [c["property_id"] for c in checks],
            "kind_free_text": "repository-specific static analyser (go/packages + go/types + go/ssa, x/tools v0.29.0); loads /repo from source on every run, executes nothing from it",
        }],
        "checks": checks,
        "not_applicable": na,
        "notes": "Technique family: static analysis only. Every check rebuilds its view of /repo from the working tree on each run (no cache of /repo between runs). Known, genuine defects of the pinned tree are listed in /verif/known_findings.json keyed by rule:construct; fixed ones are recorded there as 'fixed' and suppress nothing.",
    }
    json.dump(m, open(os.path.join(HERE, "MANIFEST.json"), "w"), indent=1)
    print(f"MANIFEST.json: {len(checks)} checks, {len(na)} not_applicable")

NA_REASONS = {}

if __name__ == "__main__":
    main()
