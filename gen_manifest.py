#!/usr/bin/env python3
"""Regenerates /verif/MANIFEST.json from the table below and from what bin/apcheck implements (-list).
Run after adding a property check:  python3 gen_manifest.py
"""
import json, subprocess, os, sys

HERE = os.path.dirname(os.path.abspath(__file__))

# id -> (level category, level text, level note, technique, design ref)
CLAIMS = {
 "C08": ("other",
   "Exhaustive static obligation per site: every unsafe.Pointer reinterpretation in the package (48 on the pinned tree, found on the SSA form by type, not by text) must be narrowing (sizeof view <= sizeof source) and a field-by-field layout prefix (offset, type, jsonld term, name; Items/OrderedItems is the one allowed renaming) on all 14 gc architectures; an interface-typed field must have the IDENTICAL type in source and view (a value stored through a field of one named interface type and read through a field of another keeps the other type's method table, so type assertions and == on it deny its dynamic type); any other use of package unsafe fails. This is the property's own static formulation ('a static obligation per site'), so the check decides the property for all sites and layouts. Claimed at level 'other' (not 'proof') because the two known widening findings at ToOrderedCollectionPage leave 2 of 88 obligations undischarged on the current tree. ADDED: (reflect) the reflection fallback converts and returns the pointer it was given, never the address of a converted copy.",
   "Trusted: go/types layout model types.SizesFor(gc, arch) agreeing with the compiler; go/ssa builder; the reflect.ConvertibleTo fallback converts only between identical underlying struct types (not re-verified).",
   "layout-prefix check over all unsafe.Pointer conversion sites (go/ssa + go/types.Sizes)", "3/C08"),
 "C15": ("other",
   "Decides the table-agreement clauses: the eight collection names of the statement are CollectionPath constants; the table Split consults and the union of the two validity tables contain all eight; Split/ValidCollectionIRI route through those tables (who-reads / who-calls on the SSA call graph); by abstract interpretation with the path fixed to each name, ofActor/ofObject/AddTo touch exactly the struct field whose jsonld term equals the name. A necessary condition of the join/split and owner laws for each name; the inverse law on arbitrary owner IRI strings is NOT decided. ADDED: (of) the lookup CollectionPath.Of performs last on an actor is ofActor for the actor collections and ofObject only for names ofObject knows; (build) the fallback always builds owner + name.",
   "Trusted: go/types constant evaluation, go/ssa, the abstract interpreter. Declined: string-level inverse law (trailing slashes, percent-escapes, path/filepath host dependence); survival of an explicitly set actor collection through Of().",
   "constant-table agreement + abstract interpretation (SCCP) of the name->field switches", "3/C15"),
 "C01": ("other",
   "Decides that the three hand-written per-field tables agree for every (type, field) of the 14 vocabulary structs and the 3 tagged sub-structs: struct tag (declared term) vs JSON writer (prop-writer call sites whose value derives from the field, by SSA provenance) vs JSON reader (stores into the field fed by fastjson key lookups, via getter summaries): written at all, under its term, not under a sign-sensitive/inverted emptiness guard, read from its term and nothing else, every emitted key consumed, loaders read the same document, scalar helpers inverse by construction (bool unquoted, float shortest-round-trip, duration xsd both ways); a property is not written under a guard that looks at only some of its own sub-fields; and (W-lost, by the path-sensitive grammar interpreter of C02) no encoder returns nothing on a path on which it has already written a property. ~3070 obligations, exhaustive over tagged fields. This is a necessary condition of the round-trip property per field (breaking a table entry drops/renames/moves the property for every value); value equality after a real round trip is NOT decided. ADDED: the emptiness predicate behind the encoders must test every field plainly for being set; the bit size handed to strconv float formatting/parsing equals the width of the Go type.",
   "Trusted: go/types, go/ssa, apcheck prov.go/tables.go, fastjson accessors look up exactly the keys given. Declined: time-zone normalisation, list compaction, nested composition, text escaping (C06).",
   "cross-table agreement by SSA provenance slicing (tag vs writer vs reader), exhaustive over struct fields", "3/C01"),
 "C03": ("other",
   "Decides that the gob writer and reader tables agree for every (type, field): constant-key updates of the property map whose value derives from the field vs stores into the field fed by comma-ok lookups of constant keys; same key both ways (case-sensitive), no shared key, no sign-sensitive/inverted guard, matching encode/decode helper pair, Marshal/UnmarshalBinary delegate to the gob pair. ~2500 obligations, exhaustive over tagged fields. Necessary condition per field of the gob round trip; value equality and encoding/gob internals are NOT decided. Type-name dispatch is C07. ADDED: (flag) the encoders' 'has data' flag is true (or the delegated helper's own flag) on every path from every update of the property map to every later read of the flag, through phis and through captured named results — otherwise a value whose only set property is that one encodes to nothing; a property is not written under a guard that looks at only some of its own sub-fields.",
   "Trusted: go/types, go/ssa, apcheck prov.go/tables.go; encoding/gob transmits a basic kind to a pointer of the same kind.",
   "cross-table agreement by SSA provenance slicing (gob map writer vs reader), exhaustive over struct fields", "3/C03"),
 "C05": ("other",
   "Decides read-side completeness: every tagged field is read from its own term, collapsible text fields also from term+'Map', nothing foreign; item getters that switch on the JSON kind handle string/object/array; no getter re-looks a key up inside the value found under that key; every item position funnels into the one dispatcher JSONLoadItem (whose table C07 proves). Necessary conditions of 'decoding reads what the document says'; the re-encoding fixpoint and generated-document equality are NOT decided. ADDED: (invent) every store of a loader into a tagged field is fed from the document, never from another property of the value being built.",
   "Trusted: go/types, go/ssa, getter summaries in tables.go, fastjson accessor semantics.",
   "reader-table completeness against struct tags + getter shape/double-lookup/funnel rules on SSA", "3/C05"),
 "C07": ("proof",
   "Exhaustive enumeration of the finite space the property names: every vocabulary type name (56: Types, GenericTypes, empty) x {registry, JSON decode, gob encode, gob decode}: the abstract interpreter runs each dispatcher with the switch tag fixed to the name and hooks at their initial values; exactly one codec leaf must be reached and it must be the codec of the registry's Go type. Plus: family lists partition Types; IsObject/IsLink and the types' own IsObject/IsLink/IsCollection answers agree with the family list; the family's To* helpers accept the registry's type; JSONItemUnmarshal is reachable only for names outside the vocabulary, which yield (nil, error) with hooks unset. 582 obligations, all discharged.",
   "Trusted: go/types, go/ssa, the abstract interpreter absint.go. Assumes hooks unset = initialisers in the source. Not decided: that decoded values carry the written id/properties (C01/C03), arbitrary user hooks.",
   "abstract interpretation (conditional constant/dynamic-type propagation over SSA) of the four dispatchers, exhaustive over names", "3/C07"),
 "C20": ("other",
   "Decides the helper x nil-kind matrix by abstract interpretation of the SSA form: 79 in-scope helpers (exported functions and methods with an item-like parameter, found by signature; constructors and Equals excluded) x each parameter x {untyped nil, typed nil pointer of each of the 14 vocabulary struct types, nil list, list with one nil-kind member}: ~1200 abstract runs; an obligation fails when an executable instruction definitely faults (invoke on nil interface, value-receiver method or field access through nil pointer, failing assertion, method call on reflect.TypeOf(nil)). IsNil must evaluate to constant true, NotEmpty to false, ItemsEqual to 'both nil' on all nil-kinds. Exhaustive over the matrix; nil-likes stored in struct fields of otherwise valid values are covered only to one list level.",
   "Trusted: go/ssa, absint.go transfer functions, dependencies summarised as unknown results. Unknown conditions make both branches executable (faults behind data-dependent guards are reported as possible). Callbacks are not entered.",
   "abstract interpretation (nilness/dynamic-type propagation with executable edges) over the helper x nil-kind matrix", "3/C20"),
 "C10": ("other",
   "Decides the sibling-agreement clause: each of the 13 Recipients() methods makes exactly one call of ItemCollectionDeduplication whose variadic argument is, in order, &To, &CC, &Bto, &BCC of the receiver itself, then (IntransitiveActivity and Question only) a fresh list holding the receiver's Actor, then the address of a local copy of Audience, and returns its result; for Activity the Block removal reassigns all five addressing lists, takes its items from the activity's object, is selected by a comparison with BlockType and cannot run after the de-duplication. Necessary conditions of the property for every addressing; NOT decided: the in-place removal's index arithmetic for every duplicate pattern, IRI equivalence classes, aliasing of the audience copy.",
   "Trusted: go/types method sets, go/ssa, prov.go.",
   "sibling agreement of call-argument schemas extracted from SSA + CFG ordering of the Block removal", "3/C10"),
 "C11": ("other",
   "Decides the recipient-stripping walk, which is the shape of the code: every object type's pointer implements Clean; Object.Clean stores a zero-length list into both Bto and BCC; the nine (+3 for Activity) walked properties are handed to CleanRecipients on every path; by abstract interpretation, Clean() of every other type reaches (*Object).Clean on its own value on every executable path, and CleanRecipients on a non-nil pointer (alone or as list member) of each type reaches that type's Clean; the only vocabulary-struct fields written in the Clean closures are Bto/BCC. Near-complete for the property; NOT decided: values embedded by value, aliasing of list backing arrays. The walk of IntransitiveActivity and Question includes actor and target.",
   "Trusted: go/types, go/ssa, the abstract interpreter, prov.go.",
   "must-call / walk-list extraction on SSA + abstract interpretation of delegation + write-frame scan", "3/C11"),
 "C13": ("other",
   "Decides the sibling-agreement clauses over the six container kinds (found by method set): in every Append the store that grows the list lies only on the not-contained side of a Contains test on that same list with the element being appended; Append/Count/Collection/Contains of one type work on one list field, which is also what ToItemCollection hands out; every Contains decides membership only through ItemsEqual / IRI.Equals between a list element and the argument. Necessary conditions of the set semantics for every history; operation histories, Remove's splice arithmetic, order preservation and backing-array aliasing are NOT decided.",
   "Trusted: go/types method sets, go/ssa, prov.go.",
   "sibling agreement + dominance of the Contains guard over the append (SSA/CFG)", "3/C13"),
 "C14": ("other",
   "Decides the insensitivity clauses structurally over every read of a parsed URL's component in the closure of IRI.Equals: scheme/host/path meet only in strings.EqualFold (path after cleaning) or against constants, never case-sensitively against each other; the scheme comparison and the scheme stripping are guarded by the checkScheme flag with the right polarity; fragment and raw query are never read; the fast path folds case and cuts the fragment; IRIs.Contains decides through IRI.Equals. NOT decided: that the relation is an equivalence (symmetry fails on the pinned tree for repeated query keys: a one-directional multiset inclusion that no structural rule separates from a correct one without false alarms), fast-path/URL-path agreement on all inputs. ADDED: (sym/refl) irisEqual and IRI.Equals are executed symbolically into decision trees over per-operand atoms and symmetric relational atoms; every pair of leaves that is consistent after exchanging the operands returns the same result (symmetry on arbitrary strings, validity guards included) and every leaf consistent with identical operands returns true (reflexivity); (components) host (with port — URL.Hostname()/Port() are findings), path and parsed query of both operands are compared; (query) the values of a repeated key are compared completely as multisets (sorted position by position or counted), never by a one-directional lookup nest; (fastpath) the strings of the fast path are the operands cut at the fragment/scheme delimiter and nothing else.",
   "Trusted: go/ssa, net/url field semantics, strings.EqualFold is symmetric and reflexive.",
   "use-site classification of url.URL component reads + flag-guard dominance + symbolic decision-tree comparison of the two argument orders (SSA)", "3/C14, 8.4"),
 "C16": ("other",
   "Decides the structural clauses of flattening: each of the fifteen flattened properties is reassigned from a flattener applied to that same property of the same value; no other vocabulary-struct property is written in the flattening closures; every flattener that can replace an item by its identifier does so only under both an is-object test and a non-empty-id test. NOT decided: index alignment of the list variant with the de-duplicated copy, idempotence, value equality of the produced IRI. ADDED: (align) a flattener that overwrites list members position by position takes the position from a loop over that very list (overwriting col[k] with k running over the de-duplicated copy silently assumes index alignment).",
   "Trusted: go/ssa, prov.go.",
   "field-assignment pairing + write-frame scan + guard dominance + positional-overwrite alignment rule (SSA)", "3/C16, 8.4"),
 "C17": ("proof",
   "Proves the comparator has the key form less(a,b) = After(key(a), key(b)) with key = later of published/updated (the two key slices are isomorphic under renaming the parameter and each depends on one parameter only) and, by abstract interpretation, that nil (untyped and typed) ranks before any object and never after; a comparator of this form is a strict weak order whenever After is one on instants, so every clause of the property follows. 8 obligations, all discharged. ADDED: (paths) apart from the key comparison every return depends only on nil / conversion-error tests of the operands — an identity or Equals shortcut makes the relation depend on something that is not the key.",
   "Assumes time.Time.After is a strict weak order on instants. Trusted: go/ssa, the abstract interpreter for the nil cases.",
   "slice isomorphism / key-form proof on SSA + every-return-path rule + abstract interpretation of nil cases", "3/C17, 8.4"),
 "C18": ("other",
   "Decides the structural clauses of the merge: by abstract interpretation CopyItemProperties returns an error without reaching any merge function for nil/typed-nil operands, for ids forced different and for type names forced different, and the dispatcher refuses unsupported types; every store to.f in the merge functions is fed from from.f of the same f, is not on the unset side of a test of from.f, and replace-if helpers return the old value only where the new one is unset (struct helpers must not replace wholesale on a cross-comparison); each merged property listed in the statement has such a store; nothing is written through from. NOT decided: the 2^n set/unset combinations on concrete values. ADDED: (reach) CopyItemProperties and the dispatcher never return a nil error on a path on which no merge function was called.",
   "Trusted: go/ssa, prov.go, the abstract interpreter.",
   "abstract interpretation of refusal paths + field-assignment pairing and guard polarity + must-pass-through of the merge call before a success return (SSA)", "3/C18, 8.4"),
 "C09": ("other",
   "Decides the structural clauses of item equality: every property of the object core other than media type and source (and actor/target/result/origin/instrument, object for activities) is compared between the two operands in the closure of the Equals methods; by abstract interpretation, forcing the id-equivalence test or the case-insensitive type test to fail makes Object.Equals constantly false and forcing Object.Equals false makes every other object type's Equals constantly false; ItemsEqual on two non-nil values of the same concrete type is never constantly false for any of the 14 types (a constantly-false dispatch breaks reflexivity for the whole type), nil-like operands are decided by C20; list equalities do not have the all-pairs loop shape. NOT decided: reflexivity/symmetry over all values (lists with id-less members), termination of the swap recursion. ADDED: (pair) every comparison inside an Equals method relates the same property of the two operands; (forms) each type predicate lists the value form of a struct iff it lists the pointer form; (member) list equality looks members up by themselves, not by their IRI; (dispatch) over all 34 dynamic item kinds incl. the list types; termination of the operand swap is C04.swap. Also: (nilptr) a nil pointer of any pointer type that can sit in an Item is compared without a fault in both orders; (flat) an Equals method never hands its own two operands back to ItemsEqual; (member) ItemCollection.Contains refuses nothing but nil arguments.",
   "Trusted: go/ssa, prov.go, the abstract interpreter.",
   "field-comparison coverage and pairing on SSA + abstract interpretation with forced comparison results over all 34 dynamic item kinds + type-predicate form agreement + swap-guard antisymmetry (C04.swap)", "3/C09, 8.4"),
 "C19": ("other",
   "Decides the structural clauses of the language-value containers: LangRefValue.Equals compares tag and text of both operands and is false when either differs (abstract interpretation with the comparison forced false); the list equality decides through it and does not have the all-pairs loop shape; Get returns a text only under 'entry tag == requested tag'; Set overwrites in place only under that test and appends only on the not-found side; Count is the receiver's length; First returns the front element. NOT decided: operation histories, equality for lists with repeated tags. ADDED: Set overwrites the FIRST entry with the tag (either every match, or an early exit from a forward scan), and appends only when nothing was overwritten.",
   "Trusted: go/ssa, prov.go.",
   "guard-dominance and loop-shape rules on SSA", "3/C19"),
 "C12": ("other",
   "Decides purity by write-effect summaries computed bottom-up over the whole package (stores, map updates, append, copy, calls mapped through actual arguments, interface calls resolved over the package's implementers, callbacks resolved where the actual is a closure): each of ~320 read-only operations (encoders, Equals/Contains, Format/String, getters/predicates, IsNil/NotEmpty/DerefItem, To*/On* helpers, ItemsEqual, ItemOrderTimestamp; found by name family and signature) may write only memory it allocated itself or its designated output parameter, never memory reachable from receiver/arguments and never a package-level variable; the ~75 decode entry points write no package-level variable. Race-freedom of concurrent read-only use follows from absence of writes to shared memory. Seven positive controls (known writers) must be recognised on every run. NOT decided: writes inside dependencies beyond the reviewed summary table, aliasing created through callee stores into locals. A dependency without a reviewed summary is assumed to write through every pointer-like argument and to return memory aliasing them.",
   "Trusted: go/ssa, effects.go, the reviewed dependency summaries (extTable/extPurePrefixes); unreviewed externals are listed in the evidence as assumptions.",
   "interprocedural write-effect (purity) analysis over SSA with root-based aliasing", "3/C12"),
 "C02": ("other",
   "Decides the structural clauses: provenance of every byte string reaching an output buffer in the encoder closure (~200 sinks: constant / blessed escaper / nested MarshalJSON / numeric-instant-duration text with constant format; string fields, receivers' own bytes, %s-formatted strings and non-escaping helpers are findings where the raw bytes first enter; parameters resolved at call sites); the escaper's tables mark no control byte, quote or backslash safe and are consulted; member names are compile-time constant terms; no encoder emits one member name twice on one path; every field is written by the writer kind its Go type calls for, instants with the RFC 3339 layout; every encoder returns nil or an opened-and-closed buffer; (grammar) every one of the 25 MarshalJSON methods is interpreted path-sensitively over SSA with the buffer's state kept as the stack of a JSON parser over tokens: on every path and for every combination of set/unset properties each write keeps the buffer a prefix of a JSON text (separators, colons, quotes, brackets, roll-backs), every non-empty result is exactly one complete value, and a float is written only under !IsNaN && !IsInf; (escaper) the lazy-copy cursor discipline of stringBytes (cursor == scan position after every escape, untouched otherwise, flush before every escape and before the closing quote) and its escape table (short escapes decode to the byte they replace, \\u00XX nibble order, \\u202X only for U+2028/9). ~1280 obligations. NOT decided: the representation of invalid UTF-8 (replaced by U+FFFD), implementations of json.Marshaler outside the package (assumed to return nothing or one JSON value). ADDED: (term-kind) the interpreter tracks the length class {0,1,>=2} of named slices through len comparisons and length getters, and no member whose name ends in 'Map' (the language-map form) is ever written with a plain JSON string as its value; the converse (an object under the plain term) is NOT decided.",
   "Trusted: go/ssa, tables.go; encoding/json.Marshal and the copied escaper stringBytes escape per RFC 8259 given their tables; nested MarshalJSON outputs are valid inductively.",
   "byte-provenance (taint) analysis of output-buffer sinks + path-sensitive abstract interpretation of the encoders against a JSON-grammar typestate + constant-table, duplicate-name and escaper-loop rules", "3/C02, 8.4"),
 "C06": ("other",
   "Decides structural necessary conditions for text to survive both codecs byte for byte: text already decoded by the JSON parser (fastjson GetStringBytes/StringBytes) is never handed to a JSON parser or a quote-stripping unmarshal method again, and never passes a byte-rewriting function (built on bytes/strings Replace*/Trim*/...) on its way into the stored value; the stored text reaches the escaper unrewritten; the gob forms put tag and text into the key and value slots and read them back from the same slots. Rewriters/re-parsers are discovered structurally. The escaper itself is decided structurally (cursor/flush discipline on every way round its loop, final flush, escape table: a dropped `start = i`, a missing flush or a wrong escape letter is a finding). NOT decided: equality for concrete strings as a relation on values. ADDED: (count) the gob decoder of a language-value list appends one entry per stored entry; (flag) gob encoders that put natural-language text into the property map keep their 'has data' flag true on every path to its reads (see C03).",
   "Trusted: go/ssa; fastjson GetStringBytes returns the decoded string value.",
   "typestate / taint flow of decoded text on SSA (re-parse and rewrite sinks) + slot pairing + phi-edge/dominance rules for the escaper loop", "3/C06, 8.4"),
 "C04": ("other",
   "Decides structural clauses of decoder totality over the decode closure D (~400 package functions reachable from the 73 Unmarshal*/GobDecode entry points found by signature): every index/slice expression in D is in bounds — the Go compiler's prove pass reports which bounds checks it could not eliminate and each such site inside D must be discharged by the checker's symbolic range rules on SSA, else it is a finding; D has no explicit panic, single-result type assertion or division by a non-constant; every loop in D is a range loop or a counted loop with constant step towards an invariant bound; every cycle of the call graph among input-carrying functions contains a descent to a strictly smaller sub-value (depth bounded by fastjson's nesting limit and the input length); every make in D is sized by a constant or an existing length; the operand-swapping self-call of ItemsEqual (on the decode path through Append/Contains) is guarded by a predicate proven antisymmetric over all pairs of the 34 dynamic item kinds (decision tree of the guard over pure atoms x feasibility from the abstract interpreter), so the two orders cannot call each other forever. NOT decided: panics inside dependencies, nil dereference of non-item pointers, quadratic de-duplication time, the follow-up-operations clause beyond C20/C12. ADDED: (once) no loader hands the same document value to a descending loader more than once on any path (longest path over the CFG, closures and delegated loaders included) — otherwise decoding time doubles per nesting level; (nilfield) every dereference in D of a value loaded from a pointer-to-struct field is preceded on all paths by a store of a fresh value or a not-nil test of that field.",
   "Trusted: the Go compiler's prove pass for sites it reports proven; go/ssa; c04.go range rules; fastjson MaxDepth.",
   "compiler prove pass (BCE report) + symbolic range rules on SSA + loop-shape, recursion-descent, swap-guard antisymmetry and allocation-size rules", "3/C04, 8.4"),
}

NOT_YET = "check not yet built in this round (planned, see DESIGN.md section 3); not claimed until it runs clean"

def main():
    try:
        impl = subprocess.run([os.path.join(HERE, "bin", "apcheck"), "-list"], capture_output=True, text=True, check=True).stdout.split()
    except Exception as e:
        print("cannot query bin/apcheck -list:", e, file=sys.stderr)
        impl = []
    props = [json.loads(l) for l in open(os.path.join(HERE, "properties.jsonl")) if l.strip()]
    checks, na = [], []
    for p in props:
        pid = p["id"]
        if pid in CLAIMS and pid in impl:
            cat, text, note, tech, ref = CLAIMS[pid]
            checks.append({
                "property_id": pid,
                "quick_cmd": f"./run.sh {pid} quick",
                "thorough_cmd": f"./run.sh {pid} thorough",
                "evidence_file": f"/verif/evidence/{pid}.json",
                "replay_cmd_template": f"./run.sh {pid} quick  # replay file {{path}} names the obligation key to look for",
                "engine": "apcheck",
                "level_claimed": {"category": cat, "text": text, "design_ref": "DESIGN.md " + ref},
                "level_note": note,
                "technique": tech,
            })
        else:
            reason = NA_REASONS.get(pid, NOT_YET)
            na.append({"property_id": pid, "reason": reason})
    m = {
        "version": 1,
        "setup_cmd": "./build.sh",
        "hooks": {
            "guard": "verif",
            "enable": "none needed: the checks are static and read /repo's source; no instrumentation is compiled into go-ap/activitypub",
            "baseline_off_cmd": "cd /repo && GOFLAGS=-mod=mod GOPROXY=off GOSUMDB=off go test -vet=off -count=1 ./...",
            "source_commits": [],
            "add_only": True,
        },
        "engines": [{
            "name": "apcheck",
            "path": "/verif/apcheck",
            "serves_properties": [c["property_id"] for c in checks],
            "kind_free_text": "repository-specific static analyser (go/packages + go/types + go/ssa, x/tools v0.29.0); loads /repo from source on every run, executes nothing from it",
        }],
        "checks": checks,
        "not_applicable": na,
        "notes": "Technique family: static analysis only. Every check rebuilds its view of /repo from the working tree on each run (no cache of /repo between runs). Known, genuine defects of the pinned tree are listed in /verif/known_findings.json keyed by rule:construct; fixed ones are recorded there as 'fixed' and suppress nothing.",
    }
    json.dump(m, open(os.path.join(HERE, "MANIFEST.json"), "w"), indent=1)
    print(f"MANIFEST.json: {len(checks)} checks, {len(na)} not_applicable")

NA_REASONS = {}


if __name__ == "__main__":
    main()
