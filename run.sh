#!/bin/bash
# usage: ./run.sh <property-id|all> [quick|thorough] [extra apcheck flags]
# Rebuilds the checker when its sources changed, then analyses /repo's current working tree from source.
set -u
HERE="$(cd "$(dirname "${BASH_SOURCE[0]}")" && pwd)"
export GOFLAGS=-mod=mod GOPROXY=off GOSUMDB=off GOTOOLCHAIN=local
unset GOWORK
export GOWORK=off
PROP="${1:?property id}"; shift
TIER="${1:-${VERIF_TIER:-quick}}"; [ $# -gt 0 ] && shift
"$HERE/build.sh" >&2 || { echo "CHECKER-ERROR build failed"; exit 2; }
exec "$HERE/bin/apcheck" -verif "$HERE" -property "$PROP" -tier "$TIER" "$@"
