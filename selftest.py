#!/usr/bin/env python3
"""Self-test of the checker: applies anchored single-edit mutants of go-ap/activitypub to scratch copies (outside
/repo and /verif), requires each still to compile, runs the relevant check against the scratch copy and requires a
report naming the mutated construct ('kill'); neutral (behaviour-preserving) edits must stay silent.

usage: selftest.py [--only ID[,ID]] [--jobs N] [--keep]
Results are written to /verif/selftest-report.json. Never touches /repo; never produces VIOLATION evidence.
"""
import json, os, shutil, subprocess, sys, tempfile, concurrent.futures, re, time

HERE = os.path.dirname(os.path.abspath(__file__))
REPO = "/repo"
ENV = dict(os.environ, GOFLAGS="-mod=mod", GOPROXY="off", GOSUMDB="off", GOTOOLCHAIN="local", GOWORK="off")

def load_mutants():
    ms = []
    d = os.path.join(HERE, "mutants")
    for fn in sorted(os.listdir(d)):
        if fn.endswith(".json"):
            ms += json.load(open(os.path.join(d, fn)))
    # behaviour-preserving refactorings written by sub-agents (tools/neutralcheck.py): replayed as neutral patches
    nd = os.path.join(HERE, "neutral")
    if os.path.isdir(nd):
        for name in sorted(os.listdir(nd)):
            pf = os.path.join(nd, name, "patch.diff")
            if os.path.exists(pf):
                ms.append({"id": "neutral-" + name, "kind": "neutral", "property": "all", "patch": pf})
    return ms

def run_one(m, keep=False):
    t0 = time.time()
    tmp = tempfile.mkdtemp(prefix="apmut-", dir=os.environ.get("TMPDIR", "/tmp"))
    res = {"id": m["id"], "property": m["property"], "kind": m.get("kind", "mutant")}
    try:
        dst = os.path.join(tmp, "repo")
        shutil.copytree(REPO, dst, ignore=shutil.ignore_patterns(".git"))
        if m.get("patch"):
            pr = subprocess.run(["patch", "-p1", "--no-backup-if-mismatch", "-s", "-i", m["patch"]], cwd=dst, capture_output=True, text=True)
            if pr.returncode != 0:
                res.update(status="anchor-lost", detail=(pr.stdout + pr.stderr)[-300:])
                return res
        for e in m.get("edits", []):
            p = os.path.join(dst, e["file"])
            s = open(p).read()
            cnt = s.count(e["old"])
            if cnt < 1 or (e.get("unique", True) and cnt != 1):
                res.update(status="anchor-lost", detail=f"{e['file']}: anchor occurs {cnt} times")
                return res
            s = s.replace(e["old"], e["new"], 1)
            open(p, "w").write(s)
        b = subprocess.run(["go", "build", "./..."], cwd=dst, env=ENV, capture_output=True, text=True)
        if b.returncode != 0:
            res.update(status="does-not-compile", detail=b.stderr[-400:])
            return res
        props = m["property"].split(",")
        out = ""
        code = 0
        for p in props:
            r = subprocess.run([os.environ.get("APBIN") or os.path.join(HERE, "bin", "apcheck"), "-verif", HERE, "-target", dst, "-property", p, "-no-evidence"],
                               env=ENV, capture_output=True, text=True)
            out += r.stdout + r.stderr
            code = max(code, r.returncode)
        fails = [l for l in out.splitlines() if l.startswith("FAIL ")]
        res["fails"] = [f[:240] for f in fails[:8]]
        res["nfails"] = len(fails)
        if code == 2:
            res.update(status="checker-error", detail=out[-600:])
        elif m.get("kind") == "neutral":
            res["status"] = "silent" if code == 0 else "FALSE-ALARM"
        else:
            exp = m.get("expect", "")
            hit = [f for f in fails if exp in f]
            res["status"] = "killed" if hit else ("missed" if code == 0 else "killed-other-key")
    finally:
        if not keep:
            shutil.rmtree(tmp, ignore_errors=True)
        res["wall_s"] = round(time.time() - t0, 1)
    return res

def main():
    only = None
    jobs = 6
    keep = False
    a = sys.argv[1:]
    while a:
        x = a.pop(0)
        if x == "--only": only = set(a.pop(0).split(","))
        elif x == "--jobs": jobs = int(a.pop(0))
        elif x == "--keep": keep = True
    if not os.environ.get("APBIN"):
        subprocess.run([os.path.join(HERE, "build.sh")], check=True)
    ms = [m for m in load_mutants() if not only or m["id"] in only or m["property"] in only]
    results = []
    with concurrent.futures.ThreadPoolExecutor(max_workers=jobs) as ex:
        for r in ex.map(lambda m: run_one(m, keep), ms):
            results.append(r)
            print(f"{r['status']:18} {r['id']:40} {r['property']:8} {r.get('wall_s')}s  {(r.get('fails') or [''])[0][:150]}")
    bad = [r for r in results if r["status"] not in ("killed", "silent")]
    summary = {"total": len(results), "killed": sum(r["status"] == "killed" for r in results),
               "silent": sum(r["status"] == "silent" for r in results), "problems": [r["id"] + ":" + r["status"] for r in bad]}
    if not only:
        json.dump({"summary": summary, "results": results}, open(os.path.join(HERE, "selftest-report.json"), "w"), indent=1)
    print(json.dumps(summary))
    sys.exit(1 if bad else 0)

if __name__ == "__main__":
    main()
