import json, subprocess, sys, os
props = {}
for l in open('/verif/properties.jsonl'):
    p = json.loads(l); props[p['id']] = p
tmpl = open('/verif/tools/agents/template-seed.txt').read()
start = tmpl.index('Property C06:'); end = tmpl.index('YOUR TASK:')
head, tail = tmpl[:start], tmpl[end:]
for pid in sys.argv[2:]:
    tag = sys.argv[1]
    wt = f'/tmp/wt{tag}-{pid}'
    if not os.path.exists(wt):
        subprocess.run(['git','-C','/repo','worktree','add','--detach',wt,'HEAD'],check=True,capture_output=True)
        subprocess.run(['cp','/repo/go.sum',wt+'/go.sum'],check=True)
    p = props[pid]
    body = f"Property {pid}: {p['title']}\n\nSTATEMENT: {p['statement']}\n\nQUANTIFIER: {p['quantifier']['text']}\n\nWHY EXISTING TESTS CANNOT SETTLE IT: {p['why_tests_cant']}\n\n\n"
    txt = (head + body + tail).replace('/tmp/wt-C06', wt).replace('C06', pid)
    txt += "\nMake the two defects as different from each other as possible, and look beyond the first function that comes to mind: every clause of the statement, every type and every helper that takes part in the behaviour is fair game, including code that only cooperates indirectly (helpers, predicates, tables, conversion functions).\n"
    open(f'/tmp/agent{tag}-{pid}.txt','w').write(txt)
    print(pid, wt)
