import json, subprocess, sys, os
props = {}
for l in open('/verif/properties.jsonl'):
    p = json.loads(l); props[p['id']] = p
tmpl = open('/verif/tools/agents/template-seed.txt').read()
start = tmpl.index('Property C06:'); end = tmpl.index('YOUR TASK:')
head, tail = tmpl[:start], tmpl[end:]
for pid in sys.argv[2:]:
    tag = sys.argv[1]
    wt = f'/tmp/wt{tag}-{pid}'
    if not os.path.exists(wt):
        subprocess.run(['git','-C','/repo','worktree','add','--detach',wt,'HEAD'],check=True,capture_output=True)
        subprocess.run(['cp','/repo/go.sum',wt+'/go.sum'],check=True)
    p = props[pid]
    body = f"Property {pid}: {p['title']}\n\nSTATEMENT: {p['statement']}\n\nQUANTIFIER: {p['quantifier']['text']}\n\nWHY EXISTING TESTS CANNOT SETTLE IT: {p['why_tests_cant']}\n\n\n"
    txt = (head + body + tail).replace('/tmp/wt-C06', wt).replace('C06', pid)
    txt += "\nKINDS WANTED THIS TIME. Defect 1 must be a COOPERATING PAIR: two edits in two different functions (preferably two files); EITHER edit applied alone must leave the behaviour described by the property unchanged (verify that: your demonstration test must pass with only edit A and with only edit B applied, and fail with both), and together they break the property for particular inputs. Typical shapes: a helper's contract is loosened in one place and a caller starts relying on the old contract in another; a guard is moved from a callee into only some of its callers; a value is normalised in one function and compared un-normalised in another; a field starts being pre-filled in a constructor and a loader stops overwriting it. Defect 2 must be a REFACTORING GONE WRONG: pick a real clean-up a maintainer would do in the code that implements this property — extract a helper, turn a run of copy-pasted statements into a table walked by a loop, replace a hand-written loop by a standard-library call, make three near-identical functions share a generic helper, invert conditions into early returns — carry it out properly, and introduce exactly one slip of the kind such a clean-up invites (one row of the table pairs the wrong fields or key, the extracted helper drops one of the original conditions, the loop's break/continue ends up one level off, the generic helper is instantiated at a neighbouring type once, an early return skips the last step). The diff should read like an honest refactoring. Both must still satisfy 1–4 above; in notes.md for defect 1 show the three runs (A only, B only, both).\n"
    open(f'/tmp/agent{tag}-{pid}.txt','w').write(txt)
    print(pid, wt)
