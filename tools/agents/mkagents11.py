import json, subprocess, sys, os
props = {}
for l in open('/verif/properties.jsonl'):
    p = json.loads(l); props[p['id']] = p
tmpl = open('/verif/tools/agents/template-seed.txt').read()
start = tmpl.index('Property C06:'); end = tmpl.index('YOUR TASK:')
head, tail = tmpl[:start], tmpl[end:]
for pid in sys.argv[2:]:
    tag = sys.argv[1]
    wt = f'/tmp/wt{tag}-{pid}'
    if not os.path.exists(wt):
        subprocess.run(['git','-C','/repo','worktree','add','--detach',wt,'HEAD'],check=True,capture_output=True)
        subprocess.run(['cp','/repo/go.sum',wt+'/go.sum'],check=True)
    p = props[pid]
    body = f"Property {pid}: {p['title']}\n\nSTATEMENT: {p['statement']}\n\nQUANTIFIER: {p['quantifier']['text']}\n\nWHY EXISTING TESTS CANNOT SETTLE IT: {p['why_tests_cant']}\n\n\n"
    txt = (head + body + tail).replace('/tmp/wt-C06', wt).replace('C06', pid)
    txt += "\nKINDS WANTED THIS TIME. Defect 1 must be an ADDITION, not a deletion or a tweak of an existing line: new code that looks like an improvement — a fast path or early return for a 'common case', a cache or memo, a pooled/reused buffer, a normalisation or clean-up step, an extra special case for one type or one value, a defensive guard, a convenience default — and that is wrong only for particular inputs. Defect 2 must sit OUTSIDE the function(s) that primarily implement the behaviour: in something that only cooperates indirectly — an interface method such as IsObject/IsLink/IsCollection/GetType/GetID/GetLink on ONE of the types, a type-set or lookup table, a conversion or view helper (To*/On*), a predicate, a generic helper, a constructor, a package-level variable — so that the primary function's text is unchanged and still the behaviour breaks for particular inputs. Both must still satisfy 1–4 above. ALREADY TAKEN by earlier volunteers, so do NOT use any of these: an accessor (GetType/GetID/GetLink/IsObject/IsLink/IsCollection) of one type that defaults or falls back; swapping two fields of a struct declaration; dropping a type from a predicate's case list or a name from a table; a fast path for the public collection; a fast path keyed on the first element of a list; a cache keyed on a prefix; case-insensitive text comparison; a registry row that pre-sets a field; an early return when to.Equals(from); an \"already ends in the name\" early return in IRIf; a sync.Pool buffer; slices.DeleteFunc on a shared list; trimming a trailing slash; a plain-ASCII pre-scan in the string escaper; keeping \\uXXXX sequences verbatim; NotEmpty judging collections by member count; a shared empty NaturalLanguageValues; de-duplicating recipient lists inside a loader; an early 'same updated timestamp' return in Equals; a batch index in Append; dropping the default port; a length limit in IRI.URL; a generic view helper at the wrong type; a tail-entry shortcut in Set; a removeFromCollection single-item fast path; a gob memo keyed by id. Look for something else: an off-by-one in an added bounds shortcut, a memo that is not invalidated, an added normalisation that is not idempotent, a helper whose contract changes for an edge value (empty vs nil, zero time, zero-length id), an added conversion that loses information, an init-order dependency, a method added to a type so that it now satisfies an interface the code type-switches on, a changed constant or package-level table entry, an embedded-type promotion, a generic helper instantiated at the wrong type, and so on.\n"
    open(f'/tmp/agent{tag}-{pid}.txt','w').write(txt)
    print(pid, wt)
