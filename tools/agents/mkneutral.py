import json, subprocess, sys, os
props = {}
for l in open('/verif/properties.jsonl'):
    p = json.loads(l); props[p['id']] = p
for pid in sys.argv[1:]:
    wt = f'/tmp/wtn-{pid}'
    if not os.path.exists(wt):
        subprocess.run(['git','-C','/repo','worktree','add','--detach',wt,'HEAD'],check=True,capture_output=True)
        subprocess.run(['cp','/repo/go.sum',wt+'/go.sum'],check=True)
    p = props[pid]
    txt = f"""You are helping evaluate a verification effort for the Go library go-ap/activitypub (ActivityStreams/ActivityPub vocabulary types with hand-written JSON and gob codecs). You have your OWN scratch git worktree of the library at {wt} (a detached checkout; work ONLY there; never touch /repo or /verif; do not read anything under /verif).

Environment: the sandbox has no network. Before any go command run:
  export GOFLAGS=-mod=mod GOPROXY=off GOSUMDB=off GOTOOLCHAIN=local GOWORK=off
Build/test with: cd {wt} && go build ./... && go test -vet=off -count=1 . 2>&1 | tail -5
(The sub-package ./tests has two tests that always fail, TestDoNotDeliverToActor and TestDoNotDeliverBlockToObject; ignore those two; everything else must keep passing.)

Here is a semantic property the library satisfies:

Property {pid}: {p['title']}

STATEMENT: {p['statement']}

QUANTIFIER: {p['quantifier']['text']}

YOUR TASK: produce SIX different BEHAVIOUR-PRESERVING refactorings of the library code that implements this property (non-test .go files in {wt}). These are the kind of clean-ups a maintainer makes without intending any change in behaviour, and each one must really leave the behaviour described by the property (and all other observable behaviour of the library) exactly as it is. Make them realistic and varied, for example: extract a helper function or inline one; rewrite an if-chain as a switch (or back); invert a condition and swap the branches; replace an index loop by a range loop (or back); introduce or remove a local variable; reorder two independent statements; use an early return/continue instead of nesting; replace a hand-written loop by an equivalent standard-library call or vice versa; split a long boolean expression; rename locals/parameters; move a check into a small predicate function; change `len(x) == 0` into `len(x) < 1`; hoist a repeated expression. Touch the functions that actually implement the property (encoders/decoders/comparison/collection helpers as appropriate), not comments or unrelated code, and make each refactoring non-trivial (several lines), each in a DIFFERENT function.

For each refactoring n in 1..6:
 1. apply it alone on the clean worktree; confirm `go build ./...` succeeds and the existing test suite passes exactly as before;
 2. convince yourself it cannot change behaviour for ANY input (think about nil, empty, typed-nil, aliasing, evaluation order, short-circuiting, integer ranges); if you cannot, pick a different refactoring;
 3. write a small Go test (package activitypub, file zz_neutral_<n>_test.go) that exercises the refactored function on a handful of inputs including edge cases and passes BOTH with and without the refactoring (it documents that behaviour is unchanged);
 4. save `git diff` of ONLY the library change as {wt}/NEUTRAL/<n>/patch.diff, copy the test there, and write {wt}/NEUTRAL/<n>/notes.md: what was refactored, in which function, and why behaviour is unchanged;
 5. revert the library change (`git checkout -- <files>`; do not use git stash) before starting the next one.

Leave the worktree with no library change applied (NEUTRAL/ may stay). Reply with a one-line summary per refactoring (file, function, what kind).
"""
    open(f'/tmp/agentn-{pid}.txt','w').write(txt)
    print(pid, wt)
