#!/bin/bash
# Runs the repository's own test suite (guard off: there are no hooks) in DIR (default /repo) and compares the set
# of passing tests with /root/.vp/BASELINE.json's stable_pass list. Exit 0 iff every baseline test still passes.
DIR="${1:-/repo}"
export GOFLAGS=-mod=mod GOPROXY=off GOSUMDB=off GOTOOLCHAIN=local GOWORK=off
cd "$DIR" && go test -vet=off -count=1 -json ./... 2>&1 | python3 -c "
import sys,json
base=set(json.load(open('/root/.vp/BASELINE.json'))['stable_pass'])
passed=set(); failed=set()
for l in sys.stdin:
    try: e=json.loads(l)
    except: continue
    if e.get('Test') and e.get('Action') in('pass','fail'):
        (passed if e['Action']=='pass' else failed).add(e['Package']+'::'+e['Test'])
missing=sorted(base-passed)
print('passed',len(passed),'failed',len(failed),'baseline',len(base),'baseline-missing',len(missing))
for m in missing[:20]: print('  MISSING',m)
sys.exit(1 if missing else 0)
"
