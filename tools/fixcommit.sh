#!/bin/bash
# usage: fixcommit.sh "<commit message starting with fix:>"  — builds /repo, runs the unedited baseline suite, commits staged+unstaged tracked changes
set -e
export GOFLAGS=-mod=mod GOPROXY=off GOSUMDB=off GOTOOLCHAIN=local GOWORK=off
cd /repo
gofmt -l $(git diff --name-only | grep '\.go$') | grep . && { echo "gofmt needed"; exit 1; } || true
go build ./... 
/verif/tools/baseline.sh /repo
case "$1" in fix:*) ;; *) echo "message must start with fix:"; exit 1;; esac
git add -u
git -c user.name=builder -c user.email=builder@example.com commit -q -m "$1"
git log --oneline | head -1
