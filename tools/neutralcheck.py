#!/usr/bin/env python3
"""Checks behaviour-preserving refactorings delivered by a sub-agent against every check: any FAIL is a false alarm.

usage: neutralcheck.py <id-prefix> <dir containing NEUTRAL/<n>/patch.diff ...> [--keep-all]
For each patch: scratch copy of /repo (outside /repo and /verif), apply, build, unedited baseline suite, the agent's own
neutral test (must pass with the patch), then bin/apcheck -property all against the copy. Patches that apply and keep the
suite green are stored under /verif/neutral/<id-prefix>-<n>/ with meta.json (so that selftest/reneutral can replay them).
"""
import json, os, shutil, subprocess, sys, tempfile, glob, re
HERE = "/verif"
ENV = dict(os.environ, GOFLAGS="-mod=mod", GOPROXY="off", GOSUMDB="off", GOTOOLCHAIN="local", GOWORK="off")

def sh(cmd, cwd, timeout=1200):
    r = subprocess.run(cmd, cwd=cwd, env=ENV, capture_output=True, text=True, shell=isinstance(cmd, str), timeout=timeout)
    return r.returncode, r.stdout + r.stderr

def one(pid, n, src):
    patch = os.path.join(src, "patch.diff")
    meta = {"id": f"{pid}-n{n}", "source": src}
    tmp = tempfile.mkdtemp(prefix="neutral-")
    try:
        dst = os.path.join(tmp, "repo")
        shutil.copytree("/repo", dst, ignore=shutil.ignore_patterns(".git"))
        code, out = sh(["patch", "-p1", "--no-backup-if-mismatch", "-i", patch], dst)
        meta["patch_applies"] = code == 0
        if code != 0:
            meta["why"] = out[-300:]
            return meta
        code, out = sh("go build ./...", dst)
        meta["builds"] = code == 0
        if code != 0:
            meta["why"] = out[-300:]
            return meta
        code, out = sh([os.path.join(HERE, "tools", "baseline.sh"), dst], dst)
        meta["baseline_ok"] = code == 0
        meta["baseline"] = out.strip().splitlines()[-1] if out.strip() else ""
        tests = glob.glob(os.path.join(src, "zz_*_test.go"))
        for t in tests:
            shutil.copy(t, dst)
        if tests:
            code, out = sh(["go", "test", "-vet=off", "-count=1", "-run", "ZZ|Neutral|neutral|zz", "."], dst)
            names = []
            for t in tests:
                names += re.findall(r"^func (Test\w+)\(", open(t).read(), re.M)
            code, out = sh(["go", "test", "-vet=off", "-count=1", "-run", "^(" + "|".join(names) + ")$", "."], dst)
            meta["own_test_passes"] = code == 0
            for t in tests:
                os.remove(os.path.join(dst, os.path.basename(t)))
        r = subprocess.run([os.environ.get("APBIN") or os.path.join(HERE, "bin", "apcheck"), "-verif", HERE, "-target", dst, "-property", "all", "-no-evidence"], env=ENV, capture_output=True, text=True)
        fails = [l[:260] for l in (r.stdout + r.stderr).splitlines() if l.startswith("FAIL ") or l.startswith("CHECKER")]
        meta["apcheck_exit"] = r.returncode
        meta["alarms"] = fails
    finally:
        shutil.rmtree(tmp, ignore_errors=True)
    return meta

def main():
    pid, base = sys.argv[1], os.path.abspath(sys.argv[2])
    if not os.environ.get("APBIN"):  # APBIN=<dev binary>: leave bin/apcheck alone (a background self-test may be using it)
        subprocess.run([os.path.join(HERE, "build.sh")], check=True)
    out = []
    for d in sorted(glob.glob(os.path.join(base, "NEUTRAL", "*"))):
        if not os.path.exists(os.path.join(d, "patch.diff")):
            continue
        n = os.path.basename(d)
        m = one(pid, n, d)
        out.append(m)
        ok = m.get("patch_applies") and m.get("builds") and m.get("baseline_ok")
        print(m["id"], "applies" if m.get("patch_applies") else "NO-APPLY", "suite-ok" if m.get("baseline_ok") else "SUITE?", "own-test", m.get("own_test_passes"), "ALARMS" if m.get("alarms") else "silent", *(m.get("alarms") or [])[:4], sep="  ")
        if ok:
            dst = os.path.join(HERE, "neutral", m["id"])
            os.makedirs(dst, exist_ok=True)
            for f in glob.glob(os.path.join(d, "*")):
                shutil.copy(f, dst)
            json.dump(m, open(os.path.join(dst, "meta.json"), "w"), indent=1)
    return 0

if __name__ == "__main__":
    sys.exit(main())
