#!/bin/bash
# Re-confirms every recorded seeded defect against the current /repo and the current checks (4 in parallel).
# usage: tools/reseed.sh [extra properties to run for every seed, comma separated]
cd /verif
./build.sh
one() {
  d=$1; extra=$2
  id=$(basename $d)
  [ -f $d/meta.json ] || exit 0
  st=$(python3 -c "import json;print(json.load(open('$d/meta.json')).get('status',''))")
  if [ "$st" = "obsolete-after-fix" ]; then echo "$id obsolete-after-fix (not replayed)"; exit 0; fi
  prop=$(python3 -c "import json;print(json.load(open('$d/meta.json'))['property'])")
  props=$(python3 -c "import json;m=json.load(open('$d/meta.json'));print(','.join(sorted(set(m.get('checked_properties',[m['property']])+(m.get('detected_by') or [])+[x for x in '$extra'.split(',') if x]))))")
  python3 tools/seedcheck.py $id $prop $d --props $props 2>/dev/null | python3 -c "
import sys,json
try:
    m=json.load(sys.stdin)
    print('$id', 'confirmed' if m.get('confirmed') else 'NOT-CONFIRMED', 'detected_by', m.get('detected_by'))
except Exception as e:
    print('$id', 'ERROR', e)
"
}
export -f one
ls -d seeded/*/ | xargs -P 4 -I{} bash -c "one {} '$1'"
