#!/bin/bash
# Re-confirms every recorded seeded defect against the current /repo and the current checks.
# usage: tools/reseed.sh [extra properties to run for every seed, comma separated]
cd /verif
for d in seeded/*/; do
  id=$(basename $d)
  prop=$(python3 -c "import json;print(json.load(open('$d/meta.json'))['property'])")
  props=$(python3 -c "import json;m=json.load(open('$d/meta.json'));print(','.join(sorted(set(m.get('checked_properties',[m['property']])+[x for x in '$1'.split(',') if x]))))")
  python3 tools/seedcheck.py $id $prop $d --props $props 2>/dev/null | python3 -c "
import sys,json
try:
    m=json.load(sys.stdin)
    print('$id', 'confirmed' if m.get('confirmed') else 'NOT-CONFIRMED', 'detected_by', m.get('detected_by'))
except Exception as e:
    print('$id', 'ERROR', e)
"
done
