#!/bin/bash
# usage: tools/seedbatch.sh <tag> <Cxx> [extra props]   — confirms /tmp/wt<tag>-<Cxx>/SEEDED/{1,2} as the next free seed ids
# and runs the property's own check plus the extra ones; then removes the worktree.
export GOFLAGS=-mod=mod GOPROXY=off GOSUMDB=off GOTOOLCHAIN=local GOWORK=off
cd /verif
tag=$1; p=$2; extra=$3
before=$(ls -d seeded/$p-s* 2>/dev/null | wc -l)
wt=/tmp/wt$tag-$p
for n in 1 2; do
  [ -f $wt/SEEDED/$n/patch.diff ] || { echo "$p: SEEDED/$n missing"; continue; }
  k=1; while [ -d seeded/$p-s$k ]; do k=$((k+1)); done
  props=$p; [ -n "$extra" ] && props=$p,$extra
  python3 tools/seedcheck.py $p-s$k $p $wt/SEEDED/$n --props $props 2>&1 | python3 -c "
import json,sys
try:
    m=json.load(sys.stdin)
    print(m['id'], 'confirmed', m.get('confirmed'), 'applies', m.get('patch_applies'), 'detected_by', m.get('detected_by'))
    for p,v in m.get('checks',{}).items(): print('    ',p, v['exit'], [f[:150] for f in v['fails'][:2]])
except Exception as e: print('ERROR', e)"
done
# keep the worktree when something was not confirmed (disk full, a flaky run): the seeds would be lost otherwise
if grep -q '"confirmed": false\|"confirmed": null' seeded/$p-s*/meta.json 2>/dev/null && [ -z "$FORCE_REMOVE" ]; then
  bad=$(grep -l '"confirmed": false\|"confirmed": null' seeded/$p-s*/meta.json 2>/dev/null | tr '\n' ' ')
  [ -n "$bad" ] && echo "NOTE: unconfirmed: $bad"
fi
df --output=avail -BG / | tail -1 | tr -d ' G' | awk '$1 < 20 {print "WARNING: less than 20G free: run go clean -cache"}'
after=$(ls -d seeded/$p-s* 2>/dev/null | wc -l)
if [ $((after-before)) -lt 2 ] && [ -z "$FORCE_REMOVE" ]; then echo "NOTE: only $((after-before)) of 2 seeds stored for $p: worktree $wt kept (FORCE_REMOVE=1 to drop it)"; exit 0; fi
git -C /repo worktree remove --force $wt 2>/dev/null
