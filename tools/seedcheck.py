#!/usr/bin/env python3
"""Confirms a seeded defect delivered by a sub-agent and records it under /verif/seeded/<id>/.

usage: seedcheck.py <id> <property> <dir-with patch.diff + zz_*_test.go + notes.md> [--props C01,C05] [--keep]

Steps (all in a scratch copy of /repo's current working tree, outside /repo and /verif, removed afterwards):
  1. patch applies; `go build ./...` succeeds
  2. the repository's own suite still passes every baseline test with the patch
  3. the demonstration test FAILS with the patch and PASSES without it
  4. the /verif checks for the given properties are run against the patched copy; which obligations fail is recorded
Writes seeded/<id>/{patch.diff, demo test, notes.md, meta.json}.
"""
import json, os, shutil, subprocess, sys, tempfile, glob, re

HERE = "/verif"
ENV = dict(os.environ, GOFLAGS="-mod=mod", GOPROXY="off", GOSUMDB="off", GOTOOLCHAIN="local", GOWORK="off")

def sh(cmd, cwd, timeout=900):
    r = subprocess.run(cmd, cwd=cwd, env=ENV, capture_output=True, text=True, errors="replace", shell=isinstance(cmd, str), timeout=timeout)
    return r.returncode, r.stdout + r.stderr

def needs_from_notes(path):
    """The sub-agent's own statement of what the defect needs in order to show (section of notes.md)."""
    if not os.path.exists(path):
        return ""
    txt = open(path).read()
    parts = re.split(r"^#+ *(.*)$", txt, flags=re.M)
    # parts: [pre, h1, body1, h2, body2, ...]
    for i in range(1, len(parts) - 1, 2):
        if re.search(r"need|manifest|trigger|see it|to show", parts[i], re.I):
            return " ".join(parts[i + 1].split())[:900]
    m = re.search(r"(?is)(needs?|requires?|only when|trigger)[^\n]{0,400}", txt)
    return " ".join(m.group(0).split())[:600] if m else ""

def main():
    sid, prop, src = sys.argv[1], sys.argv[2], os.path.abspath(sys.argv[3])
    props = [prop]
    keep = "--keep" in sys.argv
    if "--props" in sys.argv:
        props = sys.argv[sys.argv.index("--props") + 1].split(",")
    patch = os.path.join(src, "patch.diff")
    demos = glob.glob(os.path.join(src, "zz_*_test.go")) + glob.glob(os.path.join(src, "*_test.go"))
    demos = sorted(set(demos))
    assert os.path.exists(patch) and demos, (patch, demos)
    tmp = tempfile.mkdtemp(prefix="seedchk-")
    meta = {"id": sid, "property": prop, "checked_properties": props}
    try:
        dst = os.path.join(tmp, "repo")
        shutil.copytree("/repo", dst, ignore=shutil.ignore_patterns(".git"))
        code, out = sh(["patch", "-p1", "--no-backup-if-mismatch", "-i", patch], dst)
        meta["patch_applies"] = code == 0
        if code != 0:
            meta["patch_output"] = out[-800:]
            print(json.dumps(meta, indent=1)); return 1
        code, out = sh("go build ./...", dst)
        meta["builds"] = code == 0
        if code != 0:
            meta["build_output"] = out[-800:]
            print(json.dumps(meta, indent=1)); return 1
        code, out = sh([os.path.join(HERE, "tools", "baseline.sh"), dst], dst)
        meta["baseline_with_patch"] = out.strip().splitlines()[-1] if out.strip() else ""
        meta["baseline_ok"] = code == 0
        for d in demos:
            shutil.copy(d, dst)
        names = []
        for d in demos:
            names += re.findall(r"^func (Test\w+)\(", open(d).read(), re.M)
        runre = "^(" + "|".join(names) + ")$"
        code_with, out_with = sh(["go", "test", "-vet=off", "-count=1", "-run", runre, "."], dst)
        meta["demo_fails_with_patch"] = code_with != 0
        meta["demo_output_with_patch"] = out_with[-600:]
        # checks against the patched copy (demo test files do not matter: Tests=false)
        subprocess.run([os.path.join(HERE, "build.sh")], check=True)
        results = {}
        for p in props:
            r = subprocess.run([os.environ.get("APBIN") or os.path.join(HERE, "bin", "apcheck"), "-verif", HERE, "-target", dst, "-property", p, "-no-evidence"], env=ENV, capture_output=True, text=True)
            fails = [l[:300] for l in (r.stdout + r.stderr).splitlines() if l.startswith("FAIL ")]
            results[p] = {"exit": r.returncode, "fails": fails[:10], "nfails": len(fails)}
        meta["checks"] = results
        meta["detected_by"] = [p for p, v in results.items() if v["exit"] == 1]
        code, out = sh(["patch", "-R", "-p1", "--no-backup-if-mismatch", "-i", patch], dst)
        code_wo, out_wo = sh(["go", "test", "-vet=off", "-count=1", "-run", runre, "."], dst)
        meta["demo_passes_without_patch"] = code_wo == 0
        if code_wo != 0:
            meta["demo_output_without_patch"] = out_wo[-600:]
        meta["confirmed"] = bool(meta["baseline_ok"] and meta["demo_fails_with_patch"] and meta["demo_passes_without_patch"])
    finally:
        if not keep:
            shutil.rmtree(tmp, ignore_errors=True)
    if meta.get("confirmed"):
        out_dir = os.path.join(HERE, "seeded", sid)
        os.makedirs(out_dir, exist_ok=True)
        if os.path.realpath(src) != os.path.realpath(out_dir):
            shutil.copy(patch, os.path.join(out_dir, "patch.diff"))
            for d in demos:
                shutil.copy(d, out_dir)
            if os.path.exists(os.path.join(src, "notes.md")):
                shutil.copy(os.path.join(src, "notes.md"), out_dir)
        meta["needs_to_manifest"] = needs_from_notes(os.path.join(out_dir, "notes.md"))
        meta["what_i_ran"] = "tools/seedcheck.py: patch -p1 onto a scratch copy of /repo; go build; tools/baseline.sh (all 663 baseline tests); go test -run <demo> with and without the patch; bin/apcheck -target <scratch> -property <props>"
        mp = os.path.join(out_dir, "meta.json")
        if os.path.exists(mp):
            try:
                prev = json.load(open(mp))
                for k in ("status", "status_reason"):
                    if k in prev:
                        meta[k] = prev[k]
            except Exception:
                pass
        json.dump(meta, open(mp, "w"), indent=1)
    print(json.dumps({k: meta[k] for k in meta if k not in ("demo_output_with_patch",)}, indent=1))
    return 0

if __name__ == "__main__":
    sys.exit(main())
