#!/usr/bin/env python3
# validates MANIFEST.json and every evidence/*.json against the harness schemas (python3-vt has jsonschema)
import json,glob,sys,jsonschema
m=json.load(open('/verif/MANIFEST.json')); jsonschema.validate(m,json.load(open('/root/.vp/MANIFEST.schema.json')))
es=json.load(open('/root/.vp/EVIDENCE.schema.json'))
ids={c['property_id'] for c in m['checks']}
na={c['property_id'] for c in m.get('not_applicable',[])}
props=[json.loads(l)['id'] for l in open('/verif/properties.jsonl') if l.strip()]
assert ids|na==set(props) and not (ids&na), (sorted(set(props)-ids-na), sorted(ids&na))
for f in sorted(glob.glob('/verif/evidence/*.json')):
    e=json.load(open(f)); jsonschema.validate(e,es)
    c=e['coverage']
    print(f.split('/')[-1], e['level'], e['tier'], 'obl',c.get('obligations'),'dis',c.get('discharged'),'viol',e.get('violations'), '%.1fs'%e['wall_s'])
print('ok: manifest + evidence valid;', len(ids),'claimed,',len(na),'not_applicable')
